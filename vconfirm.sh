#!/bin/bash
# vconfirm.sh <prop> <variant>  — independent confirmation of a seeded change in a scratch worktree:
# builds, runs the pinned suite, runs the demonstration with and without the change.
PROP=$1; X=$2
SRC=${SEEDSRC:-/tmp/seed-out}/$PROP/$X
WT=/tmp/cf/$PROP-$X
OUT=$SRC/confirm.txt
exec > $OUT 2>&1
set -x
git -C /repo worktree add -f --detach $WT $(cat ${SEEDSRC:-/tmp/seed-out}/BASE 2>/dev/null || echo HEAD) || exit 1
cd $WT
# demo on the unmodified tree
bash $SRC/build_and_run.sh $WT > $SRC/confirm-demo-clean.txt 2>&1; echo "DEMO_CLEAN_EXIT=$?"
git apply $SRC/patch.diff || { echo "PATCH_DOES_NOT_APPLY"; exit 1; }
bash $SRC/build_and_run.sh $WT > $SRC/confirm-demo-changed.txt 2>&1; echo "DEMO_CHANGED_EXIT=$?"
cmake -G Ninja -S $WT -B $WT/_build -DCMAKE_BUILD_TYPE=RelWithDebInfo > /dev/null && cmake --build $WT/_build > $SRC/confirm-build.txt 2>&1; echo "BUILD_EXIT=$?"
ctest --test-dir $WT/_build -j${CTEST_J:-4} --timeout 900 > $SRC/confirm-ctest.txt 2>&1; R=$?
if [ $R -ne 0 ]; then  # load / memory pressure kills 4 GiB runtime tests: failed ones are run again one at a time
  cp $SRC/confirm-ctest.txt $SRC/confirm-ctest-first.txt
  ctest --test-dir $WT/_build --rerun-failed -j1 --timeout 900 > $SRC/confirm-ctest-rerun.txt 2>&1; R=$?
  echo "RERUN_FAILED_ALONE_EXIT=$R"
fi
echo "CTEST_EXIT=$R"
tail -15 $SRC/confirm-ctest.txt
cd /
git -C /repo worktree remove --force $WT
echo CONFIRM_DONE
