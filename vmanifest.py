#!/usr/bin/env python3
"""vmanifest.py — writes MANIFEST.json from the tables below (run after editing them)."""
import json
import os
import subprocess

from vharness import HARNESSES, PROP2HARNESS

VERIF = os.path.dirname(os.path.abspath(__file__))

ALL = ["C%02d" % i for i in range(1, 19)]

_CHAN_NOTE = ("Trusts the vsim model of mutex/condition/join (POSIX semantics, sequential consistency, no spurious wake-ups), the "
              "behavioural ledger in harness/chan/chan.cpp (reads no field of struct channel) and AddressSanitizer. Interleavings are explored "
              "at channel-call granularity plus two explicit pauses of the writer inside write_map: before its first lock call, and between its "
              "wait-condition check and its sleep; abort_write+write_unmap is one writer step (as in source.c); a mapped reader maps again only "
              "in the shape the runtime can reach (it holds everything committed; refused; then unmap(0)); channel_rewind is called at arbitrary moments at which the writer is idle. "
              "The virtual clock often starts just before a full second (timespec carries) and the lap counter near 2^8 / 2^16 / 2^32. "
              "C02 and C03 have an integration part that runs harness rt with the focus on C02 / C03 (held regions must not change; a source asleep in channel_write_map is always released); "
              "C01-C03 have a size part that runs harness chanbig: the same channel.c with a 4.5-6 GiB sparse buffer and an extent model (byte-exact oracles only up to 4 KiB).")

_RT_NOTE = ("Trusts the vsim model (POSIX mutex/condition/join semantics, sequential consistency, scheduling points at platform calls, at "
            "every 4th consecutive clock read and - in about a quarter of the cases - at generated basic-block edges of the runtime/HAL/property "
            "code (trace-pc-guard); no spurious wake-ups), the scripted mock devices (harness/rt/vmock.cpp; a quarter of the streams use the shipped simulated cameras behind a recording "
            "proxy device instead) and the client grammar "
            "(tier A: configure only while not running, MAP never on a mapped reader, whole-frame consumption, stop only for finite "
            "acquisitions - documented back-pressure makes the other programs hang by design). Rings hold 1.1-8 frames instead of 1 GiB "
            "(sink.c/filter.c compiled with channel_new renamed) and start their lap counter at 0, 250, 65530 or 2^32-6. Frame counts are <= 33, or practically endless "
            "(no limit, 2^32+3, 2^40+1: such an acquisition must not end by itself). The client may map a second time without unmap (must be refused, harmlessly) and may unmap "
            "late after stop/abort released its region. Weak-memory effects and preemption inside one basic block are not explored.")


def _rt(text, technique, ref):
    return {"level": "exploration", "text": text, "note": _RT_NOTE, "technique": technique, "design_ref": ref}


CHECKS = {
    "C04": _rt("The real runtime (acquire.c, source/filter/sink threads, channel, HAL, loader, device manager) runs on the real platform.c over a "
               "deterministic fiber scheduler; cameras and storage are scripted mock devices loaded by the real loader through a trampoline "
               "driver library. Generated cases choose frame shapes/types, frame counts, ring capacity (1.1-8 frames, so every acquisition wraps), "
               "camera pacing, no-frame returns, hardware id gaps, storage and client speed, write delay, one or two streams, client programs and "
               "the thread schedule (walk/PCT). After stop of a finite acquisition the bytes the storage device received are parsed and must equal "
               "the frames the camera delivered: count, frame ids, hardware ids, shape and every pixel byte (a PRF of camera/run/frame); streams "
               "must not mix.",
               "property-based testing over generated configurations, client programs and schedules (deterministic scheduler) with a camera-log == storage-log oracle",
               "DESIGN.md section 3, harness rt, C04"),
    "C05": _rt("Same runs as C04: every packet handed to the mock storage and every region mapped by the monitoring client is walked: 8-byte "
               "aligned start, each header's size field == header + image bytes rounded up to 8, stepping lands exactly on the next header "
               "and on the packet end, the shape equals what the camera reported for that frame, and storage packets lie inside the stream's ring. "
               "Generator biased to u8/i8 and odd sizes so all residues mod 8 occur; a regime of two to four frames of 16.0-16.04 MiB (sizes above 2^24 bytes, all low-bit patterns) "
               "runs through rings of at most three frames.",
               "property-based testing with a packet-walker invariant on every storage append and monitor map",
               "DESIGN.md section 3, harness rt, C05"),
    "C06": _rt("The client fiber maps/unmaps the monitor with generated polling styles (everything, all but the last frame, one frame at a time, "
               "slow polling, holding a region, first use in a later acquisition) over several acquisitions ended by stop, abort and abort from "
               "a second thread. Oracle: regions start at the first unconsumed frame, ids consecutive, pixels equal the camera's, every frame "
               "belongs to the current acquisition, map/unmap keep returning Ok, nothing is delivered once stop/abort returned; storage is judged "
               "by the C04 oracle regardless of the client.",
               "property-based testing of client polling programs x schedules with a monitor-log oracle (sequence, freshness, pixels)",
               "DESIGN.md section 3, harness rt, C06"),
    "C07": _rt("Abort (same thread, other thread) and stop are generated at arbitrary program positions and schedules: camera waiting for a "
               "trigger, ring full behind a slow storage, client holding a mapped region, averaging active, acquisition already finished. Hangs "
               "are decided by the scheduler (deadlock: nothing runnable; or no device call for 1 s of virtual time while Running), never by a "
               "wall-clock timeout. After abort: workers gone, camera and storage stopped, state Armed, storage holds a bit-exact gap-free prefix; the "
               "follow-up acquisition must satisfy the C04 oracle with no leftovers.",
               "property-based testing over abort points x schedules with deadlock detection, prefix oracle and follow-up acquisition oracle",
               "DESIGN.md section 3, harness rt, C07"),
    "C08": _rt("Every mock device instance carries a life-cycle automaton (open once; start only when not started; exactly one stop per start; "
               "frame/append only while started; no call after close; closed exactly once by shutdown at the latest; released instances are "
               "snapshotted and re-compared). Client programs from the usage grammar (configure, start, trigger, monitor, stop, abort, "
               "re-configure with other devices (also with the new device's open refused), stream on/off, shutdown+init, start while running, "
               "poll-then-continue-without-stop with device stops that take 5-25 ms, abort from a second thread while the first is inside acquire_stop, and - in "
               "C08 runs - configure while running) run under generated schedules; acquire_get_state == Running is cross-checked with live "
               "worker fibers and must be Armed after stop/abort. Two genuine defects of configure-while-running are recorded as known "
               "findings (DESIGN.md 8.1a) and tolerated by signature.",
               "property-based testing of API programs with a per-device life-cycle automaton",
               "DESIGN.md section 3, harness rt, C08"),
    "C09": {"level": "fault_enumeration",
            "text": "Device faults are scripted into the mock devices: camera get_frame failing at call k, storage append reporting a non-running "
                    "state at packet k, camera/storage start failing; k and the regime (fast camera + slow storage so the source is blocked on a full "
                    "ring, tiny rings, two streams) are generated. Oracle: no append reaches storage after its failure, storage input is a prefix of "
                    "the delivered frames, camera and storage are stopped, the acquisition winds down (hang detector), stop and abort return, state "
                    "is not Running afterwards, and a later fault-free acquisition satisfies the C04 oracle (no leftovers).",
            "note": _RT_NOTE + " Fault indices are sampled (0..11 and relative to the frame count), not yet enumerated exhaustively per scenario.",
            "technique": "fault injection at the device interface x generated schedules, with hang detection and follow-up acquisition oracle",
            "design_ref": "DESIGN.md section 3, harness rt, C09"},
    "C10": _rt("Averaging streams (k = 2..16, integer types, frame counts that are and are not multiples of k, sink rings of 1.1-8 averaged "
               "frames so the accumulator lands on reused memory) are checked against a double-precision mean of the k camera frames of each "
               "window (tolerance |mean|*4e-7 + 1e-4), window frame ids, f32 shape, count and order; at most one trailing frame whose pixels "
               "are not judged; follow-up acquisitions must not receive leftovers. A failure that only shows after an earlier case of the same process "
               "(state kept by the code under test between acquisitions or runtimes, e.g. a cached scale) is replayed and reported as a sequence of cases (DESIGN.md 2.3).",
               "property-based testing with an independent mean oracle over generated shapes, window sizes and schedules",
               "DESIGN.md section 3, harness rt, C10"),
    "C01": {
        "level": "exploration",
        "text": "The real channel.c runs on the real platform.c whose pthread calls are renamed onto a deterministic fiber scheduler. Generated "
                "tapes (capacity 2..4096, write sizes incl. exact-fit modes, commit/abort, up to 8 readers joining any time, partial/over/zero "
                "consumption, accept toggles, explicit interleaving) are compared with a reference log of committed bytes and a cursor per reader: "
                "every mapped region must continue exactly at the reader's cursor with the committed byte values, and an empty region is accepted "
                "only when the cursor equals the committed total; at the end every reader must drain to the total. Exploration with shrinking is the "
                "right level for a for-all over unbounded histories.",
        "note": _CHAN_NOTE,
        "technique": "model-based property testing (rapidcheck tapes, explicit interleaving via deterministic scheduler) against a reference byte log",
        "design_ref": "DESIGN.md section 3, harness chan, C01",
    },
    "C02": {
        "level": "exploration",
        "text": "Same runs as C01 with a separate verdict: every region handed to the writer must lie in the buffer and contain no physical byte "
                "whose committed offset is still unconsumed or mapped by any reader (interval ledger), NULL is accepted only for oversize requests or "
                "refused writes, reader regions must consist of committed bytes only and are re-compared byte-for-byte immediately before unmap.",
        "note": _CHAN_NOTE,
        "technique": "model-based property testing (rapidcheck tapes) with an ownership ledger per physical byte",
        "design_ref": "DESIGN.md section 3, harness chan, C02",
    },
    "C03": {
        "level": "exploration",
        "text": "The writer runs as a fiber; the director drives it into write_map until it is observed asleep or paused exactly between its "
                "condition check and its sleep, then generates consuming unmaps or refuse-writes at every such instant. Oracle at quiescence: "
                "after a refusal the writer must have returned NULL; with all readers drained and writes accepted it must have returned a region; "
                "readers drain within a bounded number of rounds. A sleeping writer with nobody left to wake it is a detected deadlock, not a timeout.",
        "note": _CHAN_NOTE + " Liveness is decided as absence of deadlock at quiescence for finite generated histories.",
        "technique": "property-based testing with a deterministic scheduler (explicit check-then-sleep window) and a deadlock oracle",
        "design_ref": "DESIGN.md section 3, harness chan, C03",
    },
    "C14": {
        "level": "exploration",
        "text": "The shipped raw device is opened through the real driver table and driven through the HAL storage API with generated "
                "frame-size sequences, packet groupings, URI spellings (plain/file://, relative/absolute), short-write and zero-length-write "
                "patterns injected under platform.c's pwrite, repeated set/start/append/stop cycles on one device (fresh path per "
                "acquisition, as the statement restricts), a second device pointed at the running device's file (refused by the lock; must be harmless), two devices open or running at the same time, and a scripted scenario in which descriptor numbers are reused across three devices after a failed append. Paths have varying lengths and are sometimes passed in oversized buffers. After every acquisition in which start and all appends reported success the file is "
                "read back and must equal the concatenation of the appended packets byte for byte.",
        "note": "Trusts the vfd interposition (open/close/pwrite/flock of platform.c renamed), the scratch file system (/dev/shm), and the "
                "generator's frame builder. The raw file is judged whenever start and every append returned Ok (also when an injected OS fault fired in between); "
                "in a sixth of the cases ~260 descriptors are already open, so that the device's files get numbers above 255.",
        "technique": "property-based testing (rapidcheck tapes, libFuzzer) with a round-trip oracle: file bytes == appended bytes, under injected short writes",
        "design_ref": "DESIGN.md section 3, harness stor, C14",
    },
    "C15": {
        "level": "exploration",
        "text": "tiff and tiff-json devices are driven like C14 with generated shapes, all eight sample types, N>=1 frames in varying packet "
                "groupings, generated JSON metadata (nesting, escapes, %, braces), pixel scales, URI spellings and repeated cycles. An independent "
                "BigTIFF reader written for the harness (no code shared with tiff.cpp) walks the directory chain and checks header, chain length "
                "== N, zero final link, all structures inside the file and pairwise disjoint, width/height/bits/sample format, strip bytes == "
                "pixel bytes, and parses every ImageDescription with its own JSON parser to compare ids, timestamps and metadata (as a JSON "
                "value); metadata.json is compared for tiff-json.",
        "note": "Trusts the harness' BigTIFF/JSON reader (harness/stor/tiffread.hpp). Only the fields the statement lists are judged (tag order, "
                "resolution tags, padding are not). Pixel scales are kept in [0,6]x[0,5] (larger values hit a float-to-uint conversion outside the statement).",
        "technique": "property-based testing (rapidcheck tapes, libFuzzer) with an independent reader as round-trip oracle",
        "design_ref": "DESIGN.md section 3, harness stor, C15",
    },
    "C16": {
        "level": "fault_enumeration",
        "text": "Every OS-level open/flock/pwrite issued by platform.c on behalf of a storage device goes through a descriptor ledger and fault "
                "injector. Systematic part: for each storage kind (raw, tiff, tiff-json, trash) and each base life-cycle history (set->close, "
                "start/stop without frames, frames in packets, repeated cycles, close while running, reuse after failure) the fault-free run is "
                "measured and then re-run with the k-th open/flock/pwrite failing, transient and persistent, for every k (thorough) or a spread of "
                "k (quick), plus zero-progress write patterns. Random part: rapidcheck tapes mixing faults into arbitrary histories. Oracles: "
                "only descriptors the device opened and still holds are written/locked/closed; none left open after stop/close; no runaway "
                "call count inside one device call (recursion/hang); when the platform layer reported a failed create/write during start/append "
                "the device is not Running afterwards.",
        "note": "Faults are those the injector produces at platform.c's open/flock/pwrite; std::filesystem calls in side-by-side-tiff.cpp are not "
                "faulted. The storage sources are compiled with file_write/file_create wrapped so the oracle knows what the platform layer returned. "
                "A write failure during start must make start fail; failures inside stop are only required not to crash/recurse/leak. A write or lock on a descriptor the "
                "device does not hold is recorded and then sent where the OS would send it.",
        "technique": "systematic fault enumeration over generated life-cycle histories + property-based testing with injected faults; descriptor ledger oracle",
        "design_ref": "DESIGN.md section 3, harness stor, C16",
    },
    "C17": {
        "level": "exploration",
        "text": "The three simulated cameras are made through the real driver table and used through the HAL on the real platform.c running on "
                "the deterministic scheduler (exposure sleeps cost no real time). Generated configurations (binning 1/2/4/8 and invalid values, all "
                "sample types, shapes incl. odd sizes, 0 and values beyond 8192/binning, offsets, exposures, trigger enable) and "
                "set/start/get_frame/stop/set sequences are checked against a model of the reported shape, strides and read-back values; every frame "
                "call gets an exact-size heap buffer; the whole camera code runs under AddressSanitizer plus UBSan alignment/bounds, so any internal "
                "buffer overrun or misaligned vector access aborts the case and is minimised by delta debugging.",
        "note": "Rendered (full-resolution) images are kept at <= 8 Ki pixels, rarely 64 Ki / 1 Mi, for throughput; configuration changes happen "
                "between runs and never while another caller is inside a frame call (it sized its buffer for the old shape). Under-fill is only "
                "judged for the random camera (last 8 image bytes must be written). A buffer allocation inside set may be made to fail: a refused set is repeated, one that reports Ok is used as configured.",
        "technique": "property-based testing (rapidcheck tapes on a deterministic scheduler) against a shape/read-back model under ASan+UBSan",
        "design_ref": "DESIGN.md section 3, harness simcam, C17",
    },
    "C18": {
        "level": "exploration",
        "text": "Caller A (frame calls), caller B (set/start/trigger/stop) and the camera's own streamer thread run as fibers; the schedule is "
                "part of the generated case (walk mode: one choice per scheduling point; PCT mode: priorities with change points; fair tail). "
                "Oracles: delivered hardware frame ids strictly increase within a run; the first id of a run shows that counting restarted; with the "
                "frame trigger enabled deliveries never exceed the triggers issued in that run, first id < triggers, and in lock-step "
                "(trigger, frame, trigger, frame ...) ids are exactly 0,1,2,...; stop returning and pending frame calls returning are decided by the "
                "scheduler's deadlock detector, not by a timeout; no camera thread survives stop.",
        "note": "Trusts the vsim model (sequential consistency; scheduling points at platform calls and, in about a quarter of the cases, at "
                "generated basic-block edges of simulated.camera.c and the HAL camera.c). Triggers are counted when the call starts. In runs where caller A makes frame calls, B does not, "
                "so that B (the only one who triggers/stops) cannot starve itself. Trigger-enable values are 1, 2, 0x80, 0xfe; per-run oracles are applied to frame calls that lie within one run. One genuine defect is recorded as a known finding (known_findings.txt, DESIGN.md 8.1a): the HAL's unsynchronised failure path of a frame call that began during a stop acting on the run started since; cases with such a call on record are reported under that one signature.",
        "technique": "property-based testing over generated schedules (deterministic scheduler, PCT/walk) with history invariants and deadlock detection",
        "design_ref": "DESIGN.md section 3, harness simcam, C18",
    },
    "C12": {
        "level": "exploration",
        "text": "The real device manager and loader run against driver libraries laid out per case next to a private copy of the harness "
                "executable: for each of the six driver names the library is absent, not an ELF file, lacks the entry point, returns NULL from "
                "init, is the real acquire-driver-common built from the working tree, or is a trampoline into a scripted mock driver with "
                "case-chosen devices (names with regex metacharacters, case variants, duplicates, 255-byte names, odd kinds, describe failures). "
                "Oracles: count/get equal the concatenation of the drivers' descriptions with driver_id = slot; for grammar-built patterns "
                "(literals, '.', sets, alternation, ?, *, + derived from an enumerated name by match-preserving or match-breaking steps) "
                "select must return exactly the first enumerated device of the kind that an independent whole-name, ASCII case-insensitive "
                "matcher accepts, also with NUL padding; raw byte patterns with any kind value must give Ok (an enumerated device of that kind) "
                "or Err, never a crash or escaping exception; every enumerated camera/storage identifier opens to a device of that kind and name.",
        "note": "Trusts the harness' backtracking matcher (harness/devsel/devsel.cpp) for the pattern subset it generates; names contain no NUL or "
                "line terminators; catastrophic backtracking in std::regex would show as a time-out, which is never a verdict. The mock driver "
                "writes nothing when describe fails.",
        "technique": "property-based testing (rapidcheck, libFuzzer) with an independent matcher and an enumeration model; differential on select",
        "design_ref": "DESIGN.md section 3, harness devsel",
    },
    "C11": {
        "level": "exploration",
        "text": "Generated HAL call sequences on up to 3 cameras and 3 storages run against a mock driver that reaches the HAL through the real "
                "loader wrapper (loader.c dlopens a trampoline library next to the executable) and whose every response "
                "(Ok/Err, any DeviceState incl. out-of-range) is scripted by the tape. A protocol monitor inside the mock flags stop without a "
                "running device, get_frame/append outside running, calls after close, double/missing close (also on open failure paths); released "
                "devices are snapshotted and re-compared after every step (a write after close is reported with its offset) and are poisoned for "
                "AddressSanitizer, so any access after close - a read, or a write of the value already there - aborts the case; the HAL-reported "
                "state is compared with a transition model derived from the driver's last response.",
        "note": "Trusts the transition model in harness/hal/hal.cpp, complete callback tables, no calls on closed handles by the caller (HAL contract), "
                "and that a released device is kept (not freed, but ASan-poisoned) by the mock so that an access is observable; AddressSanitizer for everything else.",
        "technique": "property-based testing (rapidcheck call sequences x scripted driver responses) with protocol monitor; libFuzzer on the same target",
        "design_ref": "DESIGN.md section 3, harness hal",
    },
    "C13": {
        "level": "exploration",
        "text": "Generated init/set/copy/destroy sequences over three StorageProperties objects (rapidcheck tapes, libFuzzer in the "
                "thorough tier) are executed against the real props/storage.c and compared after every step with a C++ value model; "
                "an allocation ledger (malloc/realloc/free of that file interposed) decides 'each allocation released exactly once', "
                "'no memory shared between objects' and 'source untouched'. One-shot allocation failures (the n-th malloc/realloc from now "
                "returns NULL) are injected into arbitrary calls; an object hit by a failed call must stay structurally valid (owned, "
                "NUL-terminated strings within their blocks), nothing may leak and destroy must release everything. Exploration is the right level: the property quantifies "
                "over unbounded call sequences and strings, which sampling with shrinking covers densely but cannot exhaust.",
        "note": "Trusts the value model in harness/props/props.cpp (stored value = input bytes with the last byte forced to NUL, "
                "NULL/empty input -> \"\"), clang AddressSanitizer, and that callers zero an object after destroy before reusing it. "
                "Dimension names are always NUL-terminated (documented C string); realloc is modelled as always moving. After an "
                "injected allocation failure the field values of the object concerned are not judged until it is destroyed or completely overwritten by a copy. "
                "Integration part: harness stor with the focus on C13 reads the shipped devices' own copies back with storage_get after every accepted set.",
        "technique": "property-based testing (rapidcheck stateful tapes vs. reference model + allocation ledger); libFuzzer on the same target",
        "design_ref": "DESIGN.md section 3, harness props",
    },
}

NOT_YET = "check not built yet in this round (harness planned in DESIGN.md section 3)"


def main():
    checks = []
    for p in ALL:
        if p not in CHECKS or p not in PROP2HARNESS:
            continue
        c = CHECKS[p]
        h = PROP2HARNESS[p]
        checks.append({
            "property_id": p,
            "quick_cmd": "python3 vcheck.py %s --tier quick" % p,
            "thorough_cmd": "python3 vcheck.py %s --tier thorough" % p,
            "evidence_file": "/verif/evidence/%s.json" % p,
            "replay_cmd_template": "python3 vcheck.py replay %s {path}" % p,
            "engine": h,
            "level_claimed": {"category": c["level"], "text": c["text"], "design_ref": c["design_ref"]},
            "level_note": c["note"],
            "technique": c["technique"],
        })
    try:
        commits = subprocess.run(["git", "-C", "/repo", "log", "--format=%H %s"], capture_output=True, text=True).stdout.splitlines()
        hook_commits = [l.split()[0] for l in commits if l.split(" ", 1)[1].startswith("verif-hook:")]
    except Exception:
        hook_commits = []
    m = {
        "version": 1,
        "setup_cmd": "python3 vcheck.py setup",
        "hooks": {
            "guard": "ACQUIRE_COMMON_VERIF",
            "enable": "checks compile /repo's sources themselves (vbuild.py) with -DACQUIRE_COMMON_VERIF=1 plus per-file -D renames "
                      "(pthread_*/clock/file calls of platform.c, channel_new in sink.c/filter.c, malloc in props/storage.c); no cmake option is needed",
            "baseline_off_cmd": "cmake --build /repo/_build && ctest --test-dir /repo/_build -j8 --timeout 900",
            "source_commits": hook_commits,
            "add_only": True,
        },
        "engines": [
            {"name": h, "path": "/verif/harness/%s" % h, "serves_properties": cfg["props"],
             "kind_free_text": "tape-interpreting harness with oracle; front-ends: rapidcheck (engine/rc_main.cpp), libFuzzer (engine/fz_main.cpp), replay (engine/rp_main.cpp)"}
            for h, cfg in HARNESSES.items()
        ],
        "checks": checks,
        "notes": "Orchestrator: vcheck.py (build from /repo working tree -> replay tier -> 16 rapidcheck workers -> thorough extras -> triage -> evidence). "
                 "VERIF_SEED seeds every engine. Known findings: known_findings.txt. Exit 2 + BUILD-FAILED when the tree does not compile. "
                 "A replay file is a tape (8-byte tokens) or, for a failure that needs earlier cases of the same process, a VHSEQ1 sequence of tapes; "
                 "`python3 vcheck.py replay <Cxx> <file>` renders and re-runs either. Watchdogs (workers, enumerated batches) turn a case that stops making progress "
                 "into a hang verdict only after three fresh replays also ran 360 s without ending.",
        "not_applicable": [{"property_id": p, "reason": NOT_YET} for p in ALL if p not in CHECKS or p not in PROP2HARNESS],
    }
    json.dump(m, open(os.path.join(VERIF, "MANIFEST.json"), "w"), indent=1)
    print("wrote MANIFEST.json: %d checks, %d not applicable" % (len(checks), len(m["not_applicable"])))


if __name__ == "__main__":
    main()
