#!/usr/bin/env python3
"""vmanifest.py — writes MANIFEST.json from the tables below (run after editing them)."""
import json
import os
import subprocess

from vharness import HARNESSES, PROP2HARNESS

VERIF = os.path.dirname(os.path.abspath(__file__))

ALL = ["C%02d" % i for i in range(1, 19)]

CHECKS = {
    "C13": {
        "level": "exploration",
        "text": "Generated init/set/copy/destroy sequences over three StorageProperties objects (rapidcheck tapes, libFuzzer in the "
                "thorough tier) are executed against the real props/storage.c and compared after every step with a C++ value model; "
                "an allocation ledger (malloc/realloc/free of that file interposed) decides 'each allocation released exactly once', "
                "'no memory shared between objects' and 'source untouched'. Exploration is the right level: the property quantifies "
                "over unbounded call sequences and strings, which sampling with shrinking covers densely but cannot exhaust.",
        "note": "Trusts the value model in harness/props/props.cpp (stored value = input bytes with the last byte forced to NUL, "
                "NULL/empty input -> \"\"), clang AddressSanitizer, and that callers zero an object after destroy before reusing it. "
                "Dimension names are always NUL-terminated (documented C string); realloc is modelled as always moving.",
        "technique": "property-based testing (rapidcheck stateful tapes vs. reference model + allocation ledger); libFuzzer on the same target",
        "design_ref": "DESIGN.md section 3, harness props",
    },
}

NOT_YET = "check not built yet in this round (harness planned in DESIGN.md section 3)"


def main():
    checks = []
    for p in ALL:
        if p not in CHECKS or p not in PROP2HARNESS:
            continue
        c = CHECKS[p]
        h = PROP2HARNESS[p]
        checks.append({
            "property_id": p,
            "quick_cmd": "python3 vcheck.py %s --tier quick" % p,
            "thorough_cmd": "python3 vcheck.py %s --tier thorough" % p,
            "evidence_file": "/verif/evidence/%s.json" % p,
            "replay_cmd_template": "python3 vcheck.py replay %s {path}" % p,
            "engine": h,
            "level_claimed": {"category": c["level"], "text": c["text"], "design_ref": c["design_ref"]},
            "level_note": c["note"],
            "technique": c["technique"],
        })
    try:
        commits = subprocess.run(["git", "-C", "/repo", "log", "--format=%H %s"], capture_output=True, text=True).stdout.splitlines()
        hook_commits = [l.split()[0] for l in commits if l.split(" ", 1)[1].startswith("verif-hook:")]
    except Exception:
        hook_commits = []
    m = {
        "version": 1,
        "setup_cmd": "python3 vcheck.py setup",
        "hooks": {
            "guard": "ACQUIRE_COMMON_VERIF",
            "enable": "checks compile /repo's sources themselves (vbuild.py) with -DACQUIRE_COMMON_VERIF=1 plus per-file -D renames "
                      "(pthread_*/clock/file calls of platform.c, channel_new in sink.c/filter.c, malloc in props/storage.c); no cmake option is needed",
            "baseline_off_cmd": "cmake --build /repo/_build && ctest --test-dir /repo/_build -j8 --timeout 900",
            "source_commits": hook_commits,
            "add_only": True,
        },
        "engines": [
            {"name": h, "path": "/verif/harness/%s" % h, "serves_properties": cfg["props"],
             "kind_free_text": "tape-interpreting harness with oracle; front-ends: rapidcheck (engine/rc_main.cpp), libFuzzer (engine/fz_main.cpp), replay (engine/rp_main.cpp)"}
            for h, cfg in HARNESSES.items()
        ],
        "checks": checks,
        "notes": "Orchestrator: vcheck.py (build from /repo working tree -> replay tier -> 16 rapidcheck workers -> thorough extras -> triage -> evidence). "
                 "VERIF_SEED seeds every engine. Known findings: known_findings.txt. Exit 2 + BUILD-FAILED when the tree does not compile.",
        "not_applicable": [{"property_id": p, "reason": NOT_YET} for p in ALL if p not in CHECKS or p not in PROP2HARNESS],
    }
    json.dump(m, open(os.path.join(VERIF, "MANIFEST.json"), "w"), indent=1)
    print("wrote MANIFEST.json: %d checks, %d not applicable" % (len(checks), len(m["not_applicable"])))


if __name__ == "__main__":
    main()
