#!/usr/bin/env python3
"""vcheck.py — orchestrator.  `vcheck.py <property> --tier quick|thorough` is what MANIFEST.json
registers.  Steps: build from /repo's working tree -> replay tier -> generation on worker
processes (rapidcheck) -> thorough extras (libFuzzer, enumeration) -> triage (3 replays, shrink /
ddmin) -> KNOWN-FINDING / VIOLATION lines -> evidence file.  See DESIGN.md 2.7."""
import array
import glob
import hashlib
import json
import os
import re
import shutil
import subprocess
import sys
import tempfile
import time
from concurrent.futures import ThreadPoolExecutor

import vbuild
from vbuild import VERIF, BuildError
import vharness
from vharness import HARNESSES, PROP2HARNESS

NWORKERS = int(os.environ.get("VERIF_WORKERS", "16"))


def _die_with_parent():
    """preexec_fn: workers must not outlive the orchestrator (e.g. when it is killed by a time limit)."""
    try:
        import ctypes
        import signal
        ctypes.CDLL("libc.so.6", use_errno=True).prctl(1, signal.SIGKILL)  # PR_SET_PDEATHSIG
    except Exception:
        pass
KNOWN_FILE = os.environ.get("VERIF_KNOWN_FILE", os.path.join(VERIF, "known_findings.txt"))  # (experiments only)
ASAN_OPTS = "detect_leaks=0:abort_on_error=0:allocator_may_return_null=1:detect_stack_use_after_return=0:handle_segv=1:symbolize=1:quarantine_size_mb=64"

LEVELS = {}  # property -> level, filled from MANIFEST.json


NOTES = {}  # property -> level_note of MANIFEST.json (what is assumed / trusted)


def load_manifest_levels():
    try:
        m = json.load(open(os.path.join(VERIF, "MANIFEST.json")))
        for c in m.get("checks", []):
            LEVELS[c["property_id"]] = c["level_claimed"]["category"]
            NOTES[c["property_id"]] = c.get("level_note", "")
    except Exception:
        pass


def read_known():
    """known_findings.txt lines:
         known: property=<id> signature=<sig> :: <what fails>
         fixed: property=<id> <commit> <what failed>
    Only `known:` lines suppress anything."""
    known, fixed = [], []
    try:
        for line in open(KNOWN_FILE):
            line = line.rstrip("\n")
            m = re.match(r"known:\s+property=(\S+)\s+signature=(\S+)\s+::\s*(.*)", line)
            if m:
                known.append({"property": m.group(1), "signature": m.group(2), "what": m.group(3)})
                continue
            m = re.match(r"fixed:\s+property=(\S+)\s+(\S+)\s+(.*)", line)
            if m:
                fixed.append({"property": m.group(1), "commit": m.group(2), "what": m.group(3)})
    except OSError:
        pass
    return known, fixed


def mk_scratch():
    base = "/dev/shm" if os.path.isdir("/dev/shm") and os.access("/dev/shm", os.W_OK) else os.path.join(VERIF, ".work")
    os.makedirs(base, exist_ok=True)
    return tempfile.mkdtemp(prefix="verif-%d-" % os.getpid(), dir=base)


def base_env(prop, scratch, outdir, known_path):
    env = dict(os.environ)
    env["VH_FOCUS"] = prop or ""
    env["VH_OUT"] = outdir
    env["VH_SCRATCH"] = os.path.join(outdir, "s")
    env["VH_KNOWN"] = known_path
    env["ASAN_OPTIONS"] = ASAN_OPTS
    env["UBSAN_OPTIONS"] = "halt_on_error=1:print_stacktrace=1"
    os.makedirs(env["VH_SCRATCH"], exist_ok=True)
    return env


def crash_summary(log_text):
    m = re.search(r"SUMMARY: (\w+Sanitizer): (\S+) (\S+) in (\S+)", log_text)
    if m:
        return "%s|%s" % (m.group(2), m.group(4))
    m = re.search(r"SUMMARY: (\w+Sanitizer): (\S+)", log_text)
    if m:
        return m.group(2)
    m = re.search(r"runtime error: ([^\n]{0,80})", log_text)
    if m:
        return "ubsan|" + re.sub(r"[^A-Za-z0-9_]+", "-", m.group(1))[:60]
    return "abnormal-exit"


class Replayer:
    """Runs one tape through the replay driver in a fresh process and classifies the outcome."""

    def __init__(self, harness, prop, scratch, known_path, exe):
        self.harness, self.prop, self.scratch, self.known_path, self.exe = harness, prop, scratch, known_path, exe
        self.n = 0

    def run_bytes(self, data, trace=False, timeout=120):
        self.n += 1
        d = os.path.join(self.scratch, "rp%d_%d" % (os.getpid(), self.n))
        os.makedirs(d, exist_ok=True)
        p = os.path.join(d, "in.tape")
        open(p, "wb").write(data)
        r = self.run_file(p, d, trace, timeout)
        shutil.rmtree(d, ignore_errors=True)
        return r

    def run_file(self, path, outdir=None, trace=False, timeout=120):
        own = outdir is None
        if own:
            self.n += 1
            outdir = os.path.join(self.scratch, "rp%d_%d" % (os.getpid(), self.n))
            os.makedirs(outdir, exist_ok=True)
        env = base_env(self.prop, self.scratch, outdir, self.known_path)
        cmd = [self.exe] + (["--trace"] if trace else []) + [path]
        try:
            p = subprocess.run(cmd, env=env, stdout=subprocess.PIPE, stderr=subprocess.STDOUT, timeout=timeout, cwd=outdir, preexec_fn=_die_with_parent)
            out = p.stdout.decode("utf-8", "replace")
            rc = p.returncode
        except subprocess.TimeoutExpired as e:
            out = (e.stdout or b"").decode("utf-8", "replace")
            rc = "timeout"
        if own:
            shutil.rmtree(outdir, ignore_errors=True)
        res = {"rc": rc, "out": out}
        ms = list(re.finditer(r"^REPLAY \S+ verdict=(\d) ntok=(\d+) nontrivial=(\w+) other_fail=(\w+) excluded=(\w+) sig=(.*?) msg=(.*)$", out, re.M))
        m = ms[-1] if ms else None  # a sequence file prints one line per tape: the last one is the verdict
        if rc == "timeout":
            res["cls"] = "timeout"
        elif m and rc in (0, 1):
            res["verdict"] = int(m.group(1))
            res["sig"] = m.group(6)
            res["msg"] = m.group(7)
            res["excluded"] = int(m.group(5), 16)
            res["cls"] = ("verdict:" + m.group(6)) if res["verdict"] else "ok"
        else:
            res["cls"] = "crash:" + crash_summary(out)
        return res


def read_cur_tape(path):
    try:
        raw = open(path, "rb").read()
    except OSError:
        return b""
    if len(raw) < 8:
        return b""
    n = int.from_bytes(raw[:8], "little")
    return raw[8:8 + 8 * n]


SEQ_MAGIC = b"VHSEQ1\n"


def seq_pack(tapes):
    return SEQ_MAGIC + b"".join((len(t) // 8).to_bytes(4, "little") + t[:len(t) - len(t) % 8] for t in tapes)


def seq_unpack(raw):
    out, i = [], len(SEQ_MAGIC)
    while i + 4 <= len(raw):
        n = int.from_bytes(raw[i:i + 4], "little")
        i += 4
        if i + 8 * n > len(raw):
            break
        out.append(raw[i:i + 8 * n])
        i += 8 * n
    return out


def minimise_history(rp, hist_path, shrunk, cls, limit=4000):
    """hist_path: every tape a rapidcheck worker ran up to and including its first failing one.  Returns
    (sequence bytes, description) for the shortest history found that fails in one fresh process with the
    same class of failure, or (None, reason).  Searches by bisection: the latest start, then the earliest end."""
    raw = open(hist_path, "rb").read()
    if not raw.startswith(SEQ_MAGIC):
        return None, "no history recorded"
    tapes = seq_unpack(raw)
    if len(tapes) < 2:
        return None, "and it was the first case of its process"
    pre, last = tapes[:-1], tapes[-1]
    if len(pre) > limit:
        pre = pre[-limit:]
    want = cls.split("|")[0]  # property (or crash kind): the discriminator may differ once the history is shorter
    ntests = [0]

    def fails(p, f):
        ntests[0] += 1
        r = rp.run_bytes(seq_pack(p + [f]), timeout=900)
        c = r["cls"]
        return c != "ok" and c != "timeout" and c.split("|")[0] == want

    if not fails(pre, last):
        return None, "and so does the worker's whole history of %d cases replayed in one fresh process" % len(pre)
    lo, hi = 0, len(pre)  # pre[lo:] + last fails; pre[hi:] + last passes
    while hi - lo > 1:
        mid = (lo + hi) // 2
        if fails(pre[mid:], last):
            lo = mid
        else:
            hi = mid
    keep = pre[lo:]
    if len(keep) > 1 and fails(keep[:1], last):
        keep = keep[:1]
    elif len(keep) > 1:
        a, b = 1, len(keep)  # keep[:a] + last passes; keep[:b] + last fails
        while b - a > 1:
            mid = (a + b) // 2
            if fails(keep[:mid], last):
                b = mid
            else:
                a = mid
        keep = keep[:b]
        # drop cases in the middle while the failure stays (short histories only)
        i = 1
        while len(keep) <= 12 and i < len(keep) - 1 and ntests[0] < 60:
            if fails(keep[:i] + keep[i + 1:], last):
                keep = keep[:i] + keep[i + 1:]
            else:
                i += 1
    final = last
    if shrunk and shrunk != last and fails(keep, shrunk):
        final = shrunk
    return seq_pack(keep + [final]), "%d earlier case(s) + the failing one, out of %d run by the worker (%d replays)" % (len(keep), len(tapes) - 1, ntests[0])


def ddmin(data, test, tok=8):
    """Delta debugging over 8-byte tokens, then zeroing of fields.  `test(bytes)` -> True when the
    failure of interest is still present."""
    toks = [data[i:i + tok] for i in range(0, len(data) - len(data) % tok, tok)]
    n = 2
    budget = 400
    while len(toks) >= 2 and budget > 0:
        chunk = max(1, len(toks) // n)
        reduced = False
        for i in range(0, len(toks), chunk):
            cand = toks[:i] + toks[i + chunk:]
            budget -= 1
            if cand and test(b"".join(cand)):
                toks = cand
                n = max(n - 1, 2)
                reduced = True
                break
            if budget <= 0:
                break
        if not reduced:
            if chunk == 1:
                break
            n = min(len(toks), n * 2)
    # zero individual fields (a, b, c, d)
    for i in range(len(toks)):
        for (lo, hi) in ((1, 2), (2, 4), (4, 6), (6, 8)):
            if budget <= 0:
                break
            t = toks[i]
            if t[lo:hi] == b"\0" * (hi - lo):
                continue
            cand = toks[:i] + [t[:lo] + b"\0" * (hi - lo) + t[hi:]] + toks[i + 1:]
            budget -= 1
            if test(b"".join(cand)):
                toks = cand
    return b"".join(toks)


def merge_distinct(paths, cap_total=4000000):
    s = set()
    for p in paths:
        try:
            a = array.array("Q")
            with open(p, "rb") as f:
                data = f.read()
            a.frombytes(data[:len(data) - len(data) % 8])
            if len(s) < cap_total:
                s.update(a)
        except OSError:
            pass
    return len(s)


def run_rc_workers(prop, exe, scratch, known_path, seed, ncases, rc_size, cfg, tag, stuck_s):
    """Starts NWORKERS rapidcheck processes of `exe` with focus `prop`; returns (stats, candidates).
    Watchdog: a case is a deterministic, single-threaded program (threads are fibers, time is virtual), so a
    worker whose current case does not change for stuck_s seconds -- thousands of times the cost of a case --
    sits in a loop without any platform call inside the code under test.  It is killed and its case goes
    through triage (three fresh replays must also fail to terminate)."""
    workers = []
    candidates = []
    for i in range(NWORKERS):
        out = os.path.join(scratch, "%sw%d" % (tag, i))
        os.makedirs(out, exist_ok=True)
        env = base_env(prop, scratch, out, known_path)
        env["RC_PARAMS"] = "seed=%d max_success=%d max_size=%d" % (seed * 64 + i + 1, ncases, rc_size)
        for k, v in cfg.get("env", {}).items():
            env[k] = v
        logf = open(os.path.join(out, "log"), "wb")
        p = subprocess.Popen([exe], env=env, stdout=logf, stderr=subprocess.STDOUT, cwd=out, preexec_fn=_die_with_parent)
        workers.append((i, out, p, logf))
    stats_all = []
    last = {}
    stuck = set()
    while True:
        alive = [(i, out, p) for i, out, p, _ in workers if p.poll() is None]
        if not alive:
            break
        now = time.time()
        for i, out, p in alive:
            try:
                cur = open(os.path.join(out, "cur.tape"), "rb").read(8 + 8 * 64)
            except OSError:
                cur = b""
            if i not in last or last[i][0] != cur:
                last[i] = (cur, now)
            elif now - last[i][1] > stuck_s:
                stuck.add(i)
                p.kill()
        time.sleep(1.0)
    for i, out, p, logf in workers:
        rc = p.wait()
        logf.close()
        st = None
        try:
            st = json.load(open(os.path.join(out, "stats.json")))
        except Exception:
            pass
        if st:
            stats_all.append((out, st))
        if rc == 0 and st and st.get("final"):
            continue
        if rc == 1 and st and st.get("failed") and os.path.exists(os.path.join(out, "fail.tape")):
            data = open(os.path.join(out, "fail.tape"), "rb").read()
            st["fail"]["hist"] = os.path.join(out, "hist.seq")
            candidates.append(("rapidcheck%s:w%d" % (tag and "[" + tag.rstrip("_") + "]", i), data, "verdict:" + st["fail"]["sig"], st["fail"]))
            continue
        # abnormal end: sanitizer abort / signal.  The input is in cur.tape.
        log = open(os.path.join(out, "log"), "rb").read().decode("utf-8", "replace")
        data = read_cur_tape(os.path.join(out, "cur.tape"))
        if i in stuck:
            candidates.append(("rapidcheck-stuck%s:w%d" % (tag and "[" + tag.rstrip("_") + "]", i), data, "hang:no-progress", {"log": log[-3000:], "rc": rc}))
            continue
        candidates.append(("rapidcheck-crash%s:w%d" % (tag and "[" + tag.rstrip("_") + "]", i), data, "crash:" + crash_summary(log), {"log": log[-3000:], "rc": rc}))
    return stats_all, candidates


def run_check(prop, tier, seed):
    t0 = time.time()
    harness = PROP2HARNESS[prop]
    cfg = HARNESSES[harness]
    budget = dict(cfg[tier])
    level = LEVELS.get(prop, cfg.get("level", {}).get(prop, "exploration"))
    engines = ["rc", "rp"] + (["fz"] if tier == "thorough" and "fz" in cfg["engines"] and budget.get("fz_secs") else [])
    engines += ["en"] if "en" in cfg["engines"] else []
    targets = vharness.targets_for(harness, engines)
    try:
        vbuild.build_targets(list(targets.values()) + vharness.extra_targets(harness))
    except BuildError as e:
        print("BUILD-FAILED property=%s harness=%s\n%s" % (prop, harness, e))
        return 2
    also = cfg.get("also", {}).get(prop) or []
    if isinstance(also, dict):
        also = [also]
    also_targets = []
    for a in also:
        tg = vharness.targets_for(a["harness"], ["rc", "rp"])
        try:
            vbuild.build_targets(list(tg.values()) + vharness.extra_targets(a["harness"]))
        except BuildError as e:
            print("BUILD-FAILED property=%s harness=%s\n%s" % (prop, a["harness"], e))
            return 2
        also_targets.append(tg)
    scratch = mk_scratch()
    try:
        return _run_check(prop, tier, seed, t0, harness, cfg, budget, level, targets, scratch, also, also_targets)
    finally:
        shutil.rmtree(scratch, ignore_errors=True)


def _run_check(prop, tier, seed, t0, harness, cfg, budget, level, targets, scratch, also=None, also_targets=None):
    known, fixed = read_known()
    known_here = [k for k in known if k["property"] == prop]
    known_path = os.path.join(scratch, "known.txt")
    with open(known_path, "w") as f:
        for k in known:
            f.write(k["signature"] + "\n")
    rp = Replayer(harness, prop, scratch, known_path, targets["rp"].out)
    candidates = []  # (origin, tape bytes, class, info)
    engines_count = {}
    notes = []

    # ---- 1. replay tier -------------------------------------------------------------------
    tapes = sorted(glob.glob(os.path.join(VERIF, "regress", harness, "*.tape")))
    if os.environ.get("VERIF_NO_REPLAY"):  # sensitivity experiments only: how far does generation alone get?
        tapes = []
    replay_excluded = 0

    def rp_one(p):
        return p, rp.run_file(p)

    with ThreadPoolExecutor(max_workers=NWORKERS) as ex:
        for p, r in ex.map(rp_one, tapes):
            if r["cls"] != "ok":
                candidates.append(("replay:" + os.path.relpath(p, VERIF), open(p, "rb").read(), r["cls"], r))
            elif r.get("excluded"):
                replay_excluded += 1
    engines_count["replay"] = len(tapes)

    # ---- 2. rapidcheck workers -------------------------------------------------------------
    ncases = int(budget["rc_cases"] * float(os.environ.get("VERIF_SCALE", "1")))
    stuck_s = float(os.environ.get("VERIF_STUCK_S", cfg.get("stuck_s", 90)))
    stats_all, cands = run_rc_workers(prop, targets["rc"].out, scratch, known_path, seed, ncases, budget["rc_size"], cfg, "", stuck_s)
    candidates.extend(cands)

    # ---- 2b. the property's integration part in a second harness (cfg["also"]) ---------------
    for also1, tg1 in zip(also or [], also_targets or []):
        acfg = HARNESSES[also1["harness"]]
        rp_also = Replayer(also1["harness"], prop, scratch, known_path, tg1["rp"].out)
        atapes = [] if os.environ.get("VERIF_NO_REPLAY") else sorted(glob.glob(os.path.join(VERIF, "regress", also1["harness"], "*.tape")))
        with ThreadPoolExecutor(max_workers=NWORKERS) as ex:
            for pth, r in ex.map(lambda q: (q, rp_also.run_file(q)), atapes):
                if r["cls"] != "ok":
                    candidates.append(("replay[%s]:" % also1["harness"] + os.path.relpath(pth, VERIF), open(pth, "rb").read(), r["cls"], r, rp_also))
        engines_count["replay"] = engines_count.get("replay", 0) + len(atapes)
        an = int(also1[tier]["rc_cases"] * float(os.environ.get("VERIF_SCALE", "1")))
        st2, c2 = run_rc_workers(prop, tg1["rc"].out, scratch, known_path, seed, an, also1[tier]["rc_size"], acfg, also1["harness"] + "_", stuck_s)
        stats_all.extend(st2)
        candidates.extend([c + (rp_also,) for c in c2])

    # ---- 3. thorough extras ------------------------------------------------------------------
    if "fz" in targets:
        fz_stats, fz_cands = run_libfuzzer(prop, harness, cfg, budget, targets["fz"].out, scratch, known_path, seed)
        stats_all.extend(fz_stats)
        candidates.extend(fz_cands)
    extra_cov = {}
    for name in cfg.get("extras", {}).get(prop, []):
        import venum
        fn = getattr(venum, name)
        envb = base_env(prop, scratch, scratch, known_path)
        st_x, cand_x, cov_x = fn(prop, harness, cfg, budget, targets, scratch, known_path, seed, envb, NWORKERS, tier == "thorough")
        stats_all.extend(st_x)
        candidates.extend(cand_x)
        extra_cov.update(cov_x)

    # ---- 4. triage ---------------------------------------------------------------------------
    violations = []
    seen_cls = set()
    for cand in candidates:
        origin, data, cls, info = cand[:4]
        rp_c = cand[4] if len(cand) > 4 else rp
        suffix = (".%s.tape" % rp_c.harness) if rp_c is not rp else ".tape"
        key = cls
        if key in seen_cls:
            continue
        seen_cls.add(key)
        # confirm: 3 replays in fresh processes must all fail in the same way
        rto = 4 * stuck_s if cls.startswith("hang:") else 120
        with ThreadPoolExecutor(max_workers=3) as ex3:
            results = list(ex3.map(lambda _: rp_c.run_bytes(data, timeout=rto), range(3)))
        kinds = set(r["cls"].split(":")[0] for r in results)
        if all(r["cls"] == "ok" for r in results) and isinstance(info, dict) and info.get("hist") and os.path.exists(info["hist"]):
            # The case fails in the worker but passes in a fresh process: does it fail again after the cases the
            # worker had run before it, in one process?  Then something in the code under test outlives a case (a
            # `static`, a registry) and the failure is a history of several cases; the replay file is that history.
            seq, how = minimise_history(rp_c, info["hist"], data, cls)
            if seq is None:
                notes.append("non-reproducible failure from %s (%s): fresh replays pass, %s" % (origin, cls, how))
                continue
            notes.append("failure from %s (%s) needs earlier cases in the same process: %s" % (origin, cls, how))
            data = seq
            results = [rp_c.run_bytes(data, timeout=900) for _ in range(2)]
            kinds = set(r["cls"].split(":")[0] for r in results)
            if any(r["cls"] == "ok" for r in results) or len(kinds) != 1:
                notes.append("non-reproducible failure from %s (%s): the minimised history gave %s" % (origin, cls, [r["cls"] for r in results]))
                continue
            origin += " +history"
        elif any(r["cls"] == "ok" for r in results) or len(kinds) != 1:
            notes.append("non-reproducible failure from %s (%s): replays gave %s" % (origin, cls, [r["cls"] for r in results]))
            continue
        kind = results[0]["cls"].split(":")[0]
        if kind == "timeout":
            # three fresh runs of one deterministic case, each given thousands of times the cost of a case:
            # the code under test loops without reaching any platform call (the scheduler would see those)
            h = hashlib.sha1(data).hexdigest()[:12]
            fdir = os.path.join(VERIF, "findings", prop)
            os.makedirs(fdir, exist_ok=True)
            tp = os.path.join(fdir, h + suffix)
            open(tp, "wb").write(data)
            msg = "the case does not terminate: three fresh replays ran %.0f s each (a case normally takes milliseconds) without the code under test reaching a platform call" % rto
            open(os.path.join(fdir, h + ".txt"), "w").write("origin: %s\nclass: hang:no-progress\n\n%s\n" % (origin, msg))
            violations.append({"replay": tp, "class": "hang:no-progress", "origin": origin, "msg": msg, "trace": ""})
            continue
        final_cls = results[0]["cls"]
        if kind == "crash" and not data.startswith(SEQ_MAGIC):
            # minimise by process-level delta debugging, keeping the same crash class
            want = final_cls

            def test(b):
                return rp_c.run_bytes(b)["cls"] == want

            data = ddmin(data, test)
        r = rp_c.run_bytes(data, trace=True)
        h = hashlib.sha1(data).hexdigest()[:12]
        fdir = os.path.join(VERIF, "findings", prop)
        os.makedirs(fdir, exist_ok=True)
        tp = os.path.join(fdir, h + suffix)
        open(tp, "wb").write(data)
        open(os.path.join(fdir, h + ".txt"), "w").write("origin: %s\nclass: %s\n\n%s" % (origin, final_cls, r["out"]))
        violations.append({"replay": tp, "class": final_cls, "origin": origin, "msg": r.get("msg", ""), "trace": r["out"][-2500:]})

    # ---- 5. evidence ---------------------------------------------------------------------------
    ev = make_evidence(prop, tier, seed, level, cfg, harness, stats_all, engines_count, known_here, violations, notes, t0,
                       replay_excluded)
    ev["coverage"].update(extra_cov)
    evdir = os.environ.get("VERIF_EVIDENCE", os.path.join(VERIF, "evidence"))  # sensitivity runs on modified trees write elsewhere
    os.makedirs(evdir, exist_ok=True)
    with open(os.path.join(evdir, prop + ".json"), "w") as f:
        json.dump(ev, f, indent=1)
    for k in known_here:
        print("KNOWN-FINDING: property=%s %s [signature %s; tolerated %d times in this run]" %
              (prop, k["what"], k["signature"], ev["coverage"].get("excluded_by_known_finding", 0)))
    for n in notes:
        print("NOTE: " + n)
    cov = ev["coverage"]
    print("property=%s tier=%s seed=%d evaluations=%d distinct_nontrivial=%d wall_s=%.1f violations=%d" %
          (prop, tier, seed, cov["evaluations"], cov["distinct_nontrivial"], ev["wall_s"], len(violations)))
    if violations:
        for v in violations:
            print("  failing class: %s   (%s)\n  %s" % (v["class"], v["origin"], v["msg"]))
            print("VIOLATION property=%s replay=%s" % (prop, v["replay"]))
        return 1
    return 0


def run_libfuzzer(prop, harness, cfg, budget, exe, scratch, known_path, seed):
    """Two campaigns: one seeded with the regression tapes, one from an empty corpus.  Only crash-*
    artefacts count (the target traps on an oracle failure)."""
    stats, cands = [], []
    secs = int(budget["fz_secs"] * float(os.environ.get("VERIF_SCALE", "1")))
    procs = []
    nj = max(2, NWORKERS)
    for j in range(nj):
        out = os.path.join(scratch, "fz%d" % j)
        corpus = os.path.join(out, "corpus")
        os.makedirs(corpus, exist_ok=True)
        if j % 2 == 0:
            for p in glob.glob(os.path.join(VERIF, "regress", harness, "*.tape")) + glob.glob(os.path.join(VERIF, "corpus", harness, "*")):
                shutil.copy(p, corpus)
        env = base_env(prop, scratch, out, known_path)
        maxlen = 8 * cfg.get("fz_max_tokens", 64)
        cmd = [exe, corpus, "-seed=%d" % (seed * 64 + j + 1), "-max_total_time=%d" % secs, "-max_len=%d" % maxlen,
               "-len_control=0", "-artifact_prefix=%s/" % out, "-print_final_stats=1", "-timeout=60", "-rss_limit_mb=4096",
               "-verbosity=0"]
        logf = open(os.path.join(out, "log"), "wb")
        procs.append((j, out, subprocess.Popen(cmd, env=env, stdout=logf, stderr=subprocess.STDOUT, cwd=out, preexec_fn=_die_with_parent), logf))
    for j, out, p, logf in procs:
        rc = p.wait()
        logf.close()
        try:
            st = json.load(open(os.path.join(out, "stats.json")))
            stats.append((out, st))
        except Exception:
            st = None
        for art in glob.glob(os.path.join(out, "crash-*")):
            data = open(art, "rb").read()
            if st and st.get("failed"):
                cands.append(("libfuzzer:j%d" % j, data, "verdict:" + st["fail"]["sig"], st["fail"]))
            else:
                log = open(os.path.join(out, "log"), "rb").read().decode("utf-8", "replace")
                cands.append(("libfuzzer-crash:j%d" % j, data, "crash:" + crash_summary(log), {"log": log[-3000:]}))
    return stats, cands


def make_evidence(prop, tier, seed, level, cfg, harness, stats_all, engines_count, known_here, violations, notes, t0, replay_excluded):
    evaluations = 0
    classes = {}
    nontrivial = 0
    excluded = replay_excluded
    other_fail = 0
    skipped = 0
    shrink = 0
    samples = []
    rule = ""
    for out, st in stats_all:
        evaluations += st["evaluations"]
        skipped += st.get("skipped", 0)
        shrink += st.get("shrink_evals", 0)
        engines_count[st["engine"]] = engines_count.get(st["engine"], 0) + st["evaluations"]
        for k, v in st["classes"].items():
            classes[k] = classes.get(k, 0) + v
        pp = st["props"].get(prop)
        if pp:
            nontrivial += pp["nontrivial"]
            rule = pp.get("rule", rule)
            excluded += pp["excluded"]
            other_fail += sum(q["other_fail"] for q in st["props"].values())
            for s in pp["samples"]:
                if len(samples) < 4 and s not in samples:
                    samples.append(s)
    evaluations += engines_count.get("replay", 0)
    distinct = merge_distinct([os.path.join(out, "distinct.%s.bin" % prop) for out, _ in stats_all])
    rule = cfg.get("rules", {}).get(prop, rule)
    for v in violations:
        samples.append("FAILING CASE (%s):\n%s" % (v["class"], v["trace"]))
    if not samples:
        samples = ["(no non-trivial case short enough to render was generated in this run)"]
    cov = {
        "evaluations": evaluations,
        "distinct_nontrivial": distinct,
        "distinct_nontrivial_note": "distinct case hashes among non-trivial cases, merged across workers; each worker keeps at most 250000 hashes, so this is a lower bound when nontrivial_total is much larger",
        "nontrivial_total": nontrivial,
        "rule": rule,
        "samples": samples,
        "class_histogram": classes,
        "engines": engines_count,
        "excluded_by_known_finding": excluded,
        "cases_truncated_by_other_property_failure": other_fail,
        "skipped_after_time_cap": skipped,
        "shrink_executions": shrink,
        "exhaustive": False,
        "notes": notes,
    }
    return {
        "property_id": prop,
        "tier": tier,
        "seed": seed,
        "level": level,
        "coverage": cov,
        "assumptions": (cfg.get("assumptions", {}).get(prop, []) + cfg.get("assumptions", {}).get("*", [])) or
                       [x.strip() for x in re.split(r"(?<=[.;])\s+(?=[A-Z(])", NOTES.get(prop, "")) if x.strip()],
        "wall_s": round(time.time() - t0, 2),
        "violations": len(violations),
    }


def cmd_selftest(argv):
    """vcheck.py selftest [harness ...] [--n N]: determinism self-test.  N generated tapes per harness are
    replayed in one process in generation order and, in a second process, in reverse order; every tape
    must give the same verdict, signature, classes, step count and case hash both times.  A difference means
    that state leaks from one case into the next (or that a case depends on something outside its tape)."""
    n = 300
    hs = []
    it = iter(argv)
    for a in it:
        if a == "--n":
            n = int(next(it))
        else:
            hs.append(a)
    hs = hs or list(HARNESSES)
    bad = 0
    for h in hs:
        cfg = HARNESSES[h]
        targets = vharness.targets_for(h, ["rc", "rp"])
        try:
            vbuild.build_targets(list(targets.values()) + vharness.extra_targets(h))
        except BuildError as e:
            print("BUILD-FAILED harness=%s\n%s" % (h, e))
            return 2
        scratch = mk_scratch()
        try:
            out = os.path.join(scratch, "gen")
            os.makedirs(out, exist_ok=True)
            known, _ = read_known()
            known_path = os.path.join(scratch, "known.txt")
            with open(known_path, "w") as f:
                for k in known:
                    f.write(k["signature"] + "\n")
            env = base_env("", scratch, out, known_path)
            env["RC_PARAMS"] = "seed=%d max_success=%d max_size=%d" % (4242, n, cfg["quick"]["rc_size"])
            env["VH_DUMP_TAPES"] = str(n)
            subprocess.run([targets["rc"].out], env=env, stdout=subprocess.DEVNULL, stderr=subprocess.DEVNULL, cwd=out, preexec_fn=_die_with_parent)
            tapes = sorted(glob.glob(os.path.join(out, "gen-*.tape"))) + sorted(glob.glob(os.path.join(VERIF, "regress", h, "*.tape")))

            def run(order, tag):
                d = os.path.join(scratch, tag)
                os.makedirs(d, exist_ok=True)
                e2 = base_env("", scratch, d, known_path)
                e2["VH_SELFTEST"] = "1"
                p = subprocess.run([targets["rp"].out] + order, env=e2, stdout=subprocess.PIPE, stderr=subprocess.STDOUT, cwd=d, preexec_fn=_die_with_parent)
                res = {}
                cur = None
                for line in p.stdout.decode("utf-8", "replace").splitlines():
                    m = re.match(r"REPLAY (\S+) (verdict=\d ntok=\d+ nontrivial=\w+ other_fail=\w+ excluded=\w+ sig=.*)$", line)
                    if m:
                        cur = m.group(1)
                        res[cur] = re.sub(r"0x[0-9a-f]{6,}", "PTR", m.group(2))
                    m = re.match(r"SELFTEST (\S+) (.*)$", line)
                    if m:
                        res[m.group(1)] += " " + m.group(2)
                return res, p.returncode

            r1, rc1 = run(tapes, "fwd")
            r2, rc2 = run(list(reversed(tapes)), "rev")
            diffs = [t for t in tapes if r1.get(t) != r2.get(t)]
            print("selftest harness=%s tapes=%d differing=%d" % (h, len(tapes), len(diffs)))
            for t in diffs[:5]:
                keep = os.path.join(VERIF, "findings", "selftest-%s-%s" % (h, os.path.basename(t)))
                os.makedirs(os.path.dirname(keep), exist_ok=True)
                shutil.copy(t, keep)
                print("  %s\n    fwd: %s\n    rev: %s" % (keep, r1.get(t), r2.get(t)))
            bad += len(diffs)
        finally:
            shutil.rmtree(scratch, ignore_errors=True)
    return 1 if bad else 0


def cmd_replay(argv):
    harness = argv[0]
    if harness in PROP2HARNESS:
        prop, harness = harness, PROP2HARNESS[harness]
    else:
        prop = ""
    # findings of a property's integration part carry the harness in their name: <hash>.<harness>.tape
    m = re.search(r"\.([a-z]+)\.tape$", argv[1]) if len(argv) > 1 else None
    if m and m.group(1) in HARNESSES:
        harness = m.group(1)
    targets = vharness.targets_for(harness, ["rp"])
    try:
        vbuild.build_targets(list(targets.values()) + vharness.extra_targets(harness))
    except BuildError as e:
        print("BUILD-FAILED harness=%s\n%s" % (harness, e))
        return 2
    scratch = mk_scratch()
    try:
        known, _ = read_known()
        kp = os.path.join(scratch, "known.txt")
        open(kp, "w").write("".join(k["signature"] + "\n" for k in known) if "--no-known" not in argv else "")
        rp = Replayer(harness, prop, scratch, kp, targets["rp"].out)
        rc = 0
        for p in argv[1:]:
            if p.startswith("--"):
                continue
            r = rp.run_file(os.path.abspath(p), trace=True)
            sys.stdout.write(r["out"])
            print("=> %s" % r["cls"])
            if r["cls"] != "ok":
                rc = 1
        return rc
    finally:
        shutil.rmtree(scratch, ignore_errors=True)


def cmd_setup():
    ts = []
    for h in HARNESSES:
        ts += list(vharness.targets_for(h).values()) + vharness.extra_targets(h)
    try:
        vbuild.build_targets(ts, verbose=True)
    except BuildError as e:
        print("BUILD-FAILED\n%s" % e)
        return 2
    print("setup ok: %d targets" % len(ts))
    return 0


def main():
    load_manifest_levels()
    a = sys.argv[1:]
    if not a:
        print(__doc__)
        return 2
    if a[0] == "setup":
        return cmd_setup()
    if a[0] == "replay":
        return cmd_replay(a[1:])
    if a[0] == "selftest":
        return cmd_selftest(a[1:])
    prop = a[0]
    tier = "quick"
    if "--tier" in a:
        tier = a[a.index("--tier") + 1]
    tier = os.environ.get("VERIF_TIER", tier)
    seed = int(os.environ.get("VERIF_SEED", "1") or "1")
    if prop not in PROP2HARNESS:
        print("unknown property", prop)
        return 2
    return run_check(prop, tier, seed)


if __name__ == "__main__":
    sys.exit(main())
