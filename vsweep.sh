#!/bin/bash
# vsweep.sh <first-seed> <last-seed> [tier] — false-alarm robustness: every check of MANIFEST.json with other VERIF_SEED
# values on the unchanged tree; evidence goes to a scratch directory (never to /verif/evidence).
D=$(dirname "$0"); A=${1:-2}; B=${2:-4}; T=${3:-quick}
OUT=${VSWEEP_OUT:-/tmp/vsweep}; mkdir -p $OUT
for s in $(seq $A $B); do
  for p in C01 C02 C03 C04 C05 C06 C07 C08 C09 C10 C11 C12 C13 C14 C15 C16 C17 C18; do
    VERIF_SEED=$s VERIF_EVIDENCE=$OUT/evidence-$s python3 $D/vcheck.py $p --tier $T 2>&1 | grep -E "^property=|VIOLATION|failing class" | sed "s/^/seed=$s /"
  done
done
