#!/bin/bash
# vall.sh [tier] [first] [last] — run the registered checks C<first>..C<last> (default 1..18) once on /repo's working
# tree (regenerates /verif/evidence for them).
TIER=${1:-quick}; A=${2:-1}; B=${3:-18}
rc=0
for i in $(seq -w $A $B); do
  i=$(printf "%02d" $((10#$i)))
  python3 "$(dirname "$0")/vcheck.py" C$i --tier $TIER | grep -E "^property=|VIOLATION|KNOWN-FINDING|BUILD-FAILED|failing class|^  [a-z]" || rc=1
done
exit $rc
