#!/bin/bash
# vall.sh [tier] — run every registered check once on /repo's working tree (regenerates /verif/evidence).
TIER=${1:-quick}
rc=0
for i in $(seq -w 1 18); do
  python3 "$(dirname "$0")/vcheck.py" C$i --tier $TIER | grep -E "^property=|VIOLATION|KNOWN-FINDING|BUILD-FAILED" || rc=1
done
exit $rc
