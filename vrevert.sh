#!/bin/bash
# vrevert.sh <fix-commit> <property> [scale]  — sensitivity: re-introduce exactly one repaired defect
# (git revert -n of its fix: commit in a scratch worktree) and run the property's quick check there.
C=$1; P=$2; S=${3:-0.2}
WT=/tmp/wt-rev
git -C $WT checkout -q --detach $(git -C /repo rev-parse HEAD) 2>/dev/null
git -C $WT reset -q --hard $(git -C /repo rev-parse HEAD)
git -C $WT revert -n $C >/dev/null 2>&1 || { echo "REVERT-CONFLICT $C"; git -C $WT revert --abort 2>/dev/null; git -C $WT reset -q --hard; exit 3; }
VERIF_EVIDENCE=/tmp/vb-rev/evidence VERIF_REPO=$WT VERIF_BUILD=/tmp/vb-rev VERIF_SCALE=$S timeout 900 python3 /verif/vcheck.py $P 2>&1 | grep -E "failing class|VIOLATION|property=|BUILD-FAILED" | head -6
git -C $WT reset -q --hard
