"""vbuild.py — builds the code under test straight from /repo's working tree plus the harnesses
and front-ends, with content-hash stamps (never mtimes).  See DESIGN.md 2.1."""
import hashlib
import os
import shlex
import subprocess
import sys
import fcntl
from concurrent.futures import ThreadPoolExecutor

VERIF = os.path.dirname(os.path.abspath(__file__))
REPO = os.environ.get("VERIF_REPO", "/repo")
BUILD = os.environ.get("VERIF_BUILD", os.path.join(VERIF, "build"))
GUARD = "ACQUIRE_COMMON_VERIF"

INCLUDES = [
    "acquire-core-libs/src/acquire-core-logger",
    "acquire-core-libs/src/acquire-core-platform/linux",
    "acquire-core-libs/src/acquire-device-properties",
    "acquire-core-libs/src/acquire-device-kit",
    "acquire-core-libs/src/acquire-device-hal",
    "acquire-video-runtime/src",
    "acquire-driver-common/src",
    "acquire-driver-common/src/simcams/3rdParty/pcg-c-basic-0.9",
]

PROFILES = {
    "asan": ["-fsanitize=address", "-fno-omit-frame-pointer"],
    "fuzz": ["-fsanitize=fuzzer-no-link,address", "-fno-omit-frame-pointer"],
}
COMMON = ["-g", "-O1", "-mavx2", "-fPIC", "-DNO_UNIT_TESTS", "-D%s=1" % GUARD, "-DGIT_HASH=verif", '-DGIT_TAG=""',
          "-Wno-everything"]


class BuildError(Exception):
    pass


def _sha(data):
    return hashlib.sha256(data).hexdigest()


def _file_hash(path):
    try:
        with open(path, "rb") as f:
            return _sha(f.read())
    except OSError:
        return "missing"


def _parse_deps(dfile):
    try:
        txt = open(dfile).read()
    except OSError:
        return None
    txt = txt.replace("\\\n", " ")
    if ":" not in txt:
        return None
    deps = shlex.split(txt.split(":", 1)[1])
    return deps


def compile_one(src, obj, flags, lang):
    """Compile src -> obj if its stamp (command + contents of src and of every header it included
    last time) changed.  Returns (obj, rebuilt, error-or-None)."""
    cc = "clang++" if lang == "c++" else "clang"
    std = "-std=gnu++20" if lang == "c++" else "-std=gnu11"
    dfile = obj + ".d"
    cmd = [cc, std] + flags + ["-MD", "-MF", dfile, "-c", src, "-o", obj]
    stamp_file = obj + ".stamp"

    def stamp():
        deps = _parse_deps(dfile)
        if deps is None:
            return None
        h = hashlib.sha256()
        h.update(" ".join(cmd).encode())
        for d in deps:
            h.update(d.encode())
            h.update(_file_hash(d).encode())
        return h.hexdigest()

    if os.path.exists(obj) and os.path.exists(stamp_file):
        s = stamp()
        if s is not None and s == open(stamp_file).read().strip():
            return obj, False, None
    os.makedirs(os.path.dirname(obj), exist_ok=True)
    p = subprocess.run(cmd, stdout=subprocess.PIPE, stderr=subprocess.STDOUT, text=True)
    if p.returncode != 0:
        for f in (obj, stamp_file):
            try:
                os.unlink(f)
            except OSError:
                pass
        return obj, True, "compile failed: %s\n%s" % (" ".join(cmd), p.stdout[-4000:])
    s = stamp()
    with open(stamp_file, "w") as f:
        f.write(s or "")
    return obj, True, None


def _objname(path):
    return path.replace("/", "__").replace(".", "_") + ".o"


class Target:
    """One executable (or shared object): a list of sources with per-source flags."""

    def __init__(self, name, profile="asan"):
        self.name = name
        self.profile = profile
        self.sources = []  # (abs path, lang, extra flags)
        self.link_flags = []
        self.shared = False
        self.out = None

    def repo(self, rel, extra=()):
        lang = "c++" if rel.endswith(".cpp") else "c"
        self.sources.append((os.path.join(REPO, rel), lang, list(extra)))
        return self

    def verif(self, rel, extra=()):
        lang = "c++" if rel.endswith(".cpp") else "c"
        self.sources.append((os.path.join(VERIF, rel), lang, list(extra)))
        return self


def build_targets(targets, jobs=16, verbose=False):
    """Builds all targets (compiles in parallel, then links).  Serialised by a lock file so that
    concurrent checks do not trample each other.  Raises BuildError."""
    os.makedirs(BUILD, exist_ok=True)
    lock = open(os.path.join(BUILD, ".lock"), "w")
    fcntl.flock(lock, fcntl.LOCK_EX)
    try:
        incs = ["-I" + os.path.join(REPO, i) for i in INCLUDES] + ["-I" + os.path.join(VERIF, "engine")]
        tasks = []
        for t in targets:
            odir = os.path.join(BUILD, t.profile, t.name)
            t._objs = []
            for (src, lang, extra) in t.sources:
                rel = os.path.relpath(src, REPO if src.startswith(REPO + "/") else VERIF)
                shared_dir = src.startswith(os.path.join(VERIF, "engine") + "/") and not extra
                obj = os.path.join(BUILD, t.profile, "_engine", _objname(rel)) if shared_dir else os.path.join(odir, _objname(rel))
                flags = COMMON + PROFILES[t.profile] + incs + extra
                t._objs.append(obj)
                tasks.append((src, obj, flags, lang))
        # identical (src,obj) pairs may be listed by several targets
        uniq = {}
        for task in tasks:
            uniq[task[1]] = task
        rebuilt = set()
        with ThreadPoolExecutor(max_workers=jobs) as ex:
            for obj, did, err in ex.map(lambda a: compile_one(*a), uniq.values()):
                if err:
                    raise BuildError(err)
                if did:
                    rebuilt.add(obj)
        for t in targets:
            odir = os.path.join(BUILD, t.profile, t.name)
            out = t.out or os.path.join(odir, t.name + (".so" if t.shared else ""))
            t.out = out
            need = not os.path.exists(out) or any(o in rebuilt for o in t._objs)
            lcmd = ["clang++"] + PROFILES[t.profile] + (["-shared"] if t.shared else []) + t._objs + t.link_flags + ["-o", out]
            lstamp = out + ".lstamp"
            lsig = _sha((" ".join(lcmd) + "".join(_file_hash(o) for o in t._objs)).encode())
            if not need and os.path.exists(lstamp) and open(lstamp).read() == lsig:
                continue
            os.makedirs(os.path.dirname(out), exist_ok=True)
            p = subprocess.run(lcmd, stdout=subprocess.PIPE, stderr=subprocess.STDOUT, text=True)
            if p.returncode != 0:
                raise BuildError("link failed: %s\n%s" % (" ".join(lcmd), p.stdout[-4000:]))
            open(lstamp, "w").write(lsig)
            if verbose:
                print("linked", out, file=sys.stderr)
    finally:
        fcntl.flock(lock, fcntl.LOCK_UN)
        lock.close()
