#!/usr/bin/env python3
"""vtape.py — tiny helpers for tape files.
  vtape.py mk <out.tape> k,a,b,c,d [k,a,b,c,d ...]   write a tape from explicit tokens
  vtape.py dump <in.tape>                              print the raw tokens
(the readable rendering of a tape comes from `vcheck.py replay <harness> <tape>`)"""
import struct
import sys


def mk(path, toks):
    with open(path, "wb") as f:
        for t in toks:
            k, a, b, c, d = (list(t) + [0, 0, 0, 0])[:5]
            f.write(struct.pack("<BBHHH", k, a, b, c, d))


def load(path):
    data = open(path, "rb").read()
    return [struct.unpack("<BBHHH", data[i:i + 8]) for i in range(0, len(data) - len(data) % 8, 8)]


if __name__ == "__main__":
    if sys.argv[1] == "mk":
        mk(sys.argv[2], [[int(x) for x in s.split(",")] for s in sys.argv[3:]])
    elif sys.argv[1] == "dump":
        for t in load(sys.argv[2]):
            print(",".join(str(x) for x in t))
