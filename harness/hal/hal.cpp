// Harness `hal` (C11): HAL camera/storage wrappers driven by generated call sequences against an
// in-process mock Driver whose every response is scripted by the tape.  Oracles: protocol monitor
// on the driver side, HAL state model, snapshot of released devices ("not even a memory write").
// See DESIGN.md section 3, harness `hal`.
#include "vhx.hpp"

#include <string>
#include <vector>

extern "C"
{
#include "device/hal/camera.h"
#include "device/hal/storage.h"
#include "device/hal/driver.h"
#include "device/kit/driver.h"
}

namespace {

enum
{
    K_CAM_OPEN,
    K_CAM_CLOSE,
    K_CAM_SET,
    K_CAM_GET,
    K_CAM_START,
    K_CAM_STOP,
    K_CAM_TRIGGER,
    K_CAM_FRAME,
    K_ST_OPEN,
    K_ST_CLOSE,
    K_ST_SET,
    K_ST_GET,
    K_ST_START,
    K_ST_STOP,
    K_ST_APPEND,
    K_ST_RESERVE,
    K_ST_VALIDATE,
    K_COUNT
};

// a: slot (and sub-selectors), b: scripted responses (see resp()), c/d: extra
const VhKindSpec kKinds[K_COUNT] = {
    { "CAM_OPEN", 4, 255, 65535, 0, 0 },   { "CAM_CLOSE", 2, 255, 65535, 0, 0 },   { "CAM_SET", 4, 255, 65535, 0, 0 },
    { "CAM_GET", 2, 255, 65535, 0, 0 },    { "CAM_START", 4, 255, 65535, 0, 0 },   { "CAM_STOP", 3, 255, 65535, 0, 0 },
    { "CAM_TRIGGER", 2, 255, 65535, 0, 0 }, { "CAM_FRAME", 4, 255, 65535, 0, 0 },  { "ST_OPEN", 4, 255, 65535, 0, 0 },
    { "ST_CLOSE", 2, 255, 65535, 0, 0 },  { "ST_SET", 4, 255, 65535, 0, 0 },     { "ST_GET", 2, 255, 65535, 0, 0 },
    { "ST_START", 4, 255, 65535, 0, 0 },  { "ST_STOP", 3, 255, 65535, 0, 0 },    { "ST_APPEND", 4, 255, 65535, 3, 0 },
    { "ST_RESERVE", 1, 255, 65535, 0, 0 }, { "ST_VALIDATE", 2, 255, 65535, 0, 0 },
};

enum
{
    CL_FAIL_RESP,
    CL_CLOSE_AFTER_FAILURE,
    CL_OPEN_FAIL,
    CL_DESCRIBE_FAIL,
    CL_STOP_DECISION_AFTER_FAILURE,
    CL_FRAME_WHEN_NOT_RUNNING,
    CL_APPEND_WHEN_NOT_RUNNING,
    CL_CLOSE_WHILE_RUNNING,
    CL_VALIDATE,
    CL_ODD_STATE,
    CL_CAM_RUN,
    CL_ST_RUN,
};

const VhSpec kSpec = {
    "hal",
    kKinds,
    K_COUNT,
    80,
    { "C11", nullptr },
    { "driver_failure_response", "close_after_failure", "open_fails", "describe_fails", "stop_or_io_decision_after_failure",
      "frame_call_when_not_running", "append_when_not_running", "close_while_running", "storage_validate", "storage_reports_odd_state",
      "camera_ran", "storage_ran", nullptr },
    { "C11 non-trivial: >=1 failure/odd-state response from the driver AND (a close after it, or a stop/get_frame/append decision "
      "taken by the HAL in a state reached through that failure); distinct = distinct decoded call+response sequence",
      nullptr },
};

#if defined(__has_feature)
#if __has_feature(address_sanitizer)
#define VH_ASAN 1
#endif
#endif
#if defined(__SANITIZE_ADDRESS__)
#define VH_ASAN 1
#endif
#ifdef VH_ASAN
extern "C" void __asan_poison_memory_region(void const volatile*, size_t);
extern "C" void __asan_unpoison_memory_region(void const volatile*, size_t);
#define POISON(p, n) __asan_poison_memory_region((p), (n))
#define UNPOISON(p, n) __asan_unpoison_memory_region((p), (n))
#else
#define POISON(p, n) ((void)0)
#define UNPOISON(p, n) ((void)0)
#endif

struct MockDev
{
    union
    {
        Camera cam;
        Storage st;
    } u;
    bool is_cam;
    int serial;
    bool closed = false;
    int closes = 0;
    bool cam_started = false;            // camera: a successful start not yet followed by stop
    DeviceState drv_state = DeviceState_AwaitingConfiguration; // storage: last state the driver reported
    std::vector<uint8_t> snapshot;       // bytes of the device object at the moment of release
};

struct Ctx
{
    VhCase c;
    std::vector<MockDev*> devs;
    Camera* cam[3] = { nullptr, nullptr, nullptr };
    Storage* st[3] = { nullptr, nullptr, nullptr };
    DeviceState cam_model[3], st_model[3];
    bool cam_fail_seen[3] = { false }, st_fail_seen[3] = { false };
    uint32_t resp = 0;      // scripted responses for the call in progress
    bool any_failure = false;
    int describe_kind_override = -1;
};

Ctx* g = nullptr;
Driver g_driver;

// Response script of the current HAL call: successive driver callbacks consume bit groups.
struct Script
{
    uint32_t bits;
    int used = 0;
    // cameras: Device_Ok / Device_Err, biased to Ok (1 in 4 is Err)
    DeviceStatusCode status()
    {
        unsigned v = (bits >> used) & 7;
        used += 3;
        return v == 7 ? Device_Err : Device_Ok;
    }
    // storage: any DeviceState incl. one out-of-range value; `want` is the "natural" answer,
    // given 5 times in 8.
    DeviceState state(DeviceState want)
    {
        unsigned v = (bits >> used) & 15;
        used += 4;
        switch (v) {
            case 12: return DeviceState_Closed;
            case 13: return want == DeviceState_Running ? DeviceState_AwaitingConfiguration : DeviceState_Running;
            case 14: return DeviceState_Armed;
            case 15: {
                // out-of-range codes, also ones whose low bits look like a legal state (11, 0x103 ~ Running;
                // 0x102 ~ Armed; 8 ~ Closed; -1)
                static const int odd[8] = { DeviceState_AwaitingConfiguration, DeviceStateCount, 11, 0x103, 0x102, 8, -1, DeviceState_AwaitingConfiguration };
                return (DeviceState)odd[((bits >> 5) ^ (bits >> 10) ^ (unsigned)used) & 7]; // (bits has 16 bits)
            }
            default: return want;
        }
    }
} g_script;

MockDev*
dev_of(const void* p)
{
    for (MockDev* d : g->devs)
        if ((const void*)&d->u == p)
            return d;
    return nullptr;
}

// every driver callback starts here
MockDev*
enter(const void* devptr, const char* what)
{
    MockDev* d = dev_of(devptr);
    if (!d) {
        g->c.fail("C11", "unknown-device", what, "driver callback %s received a pointer that is not a device it opened", what);
        return nullptr;
    }
    if (d->closed) {
        g->c.fail("C11", "call-after-close", what, "driver callback %s called on device #%d after it was closed", what, d->serial);
        return nullptr;
    }
    return d;
}

void
note(DeviceStatusCode s)
{
    if (s != Device_Ok) {
        g->any_failure = true;
        g->c.cls(CL_FAIL_RESP);
    }
}

// ---- camera callbacks
DeviceStatusCode
m_cam_set(Camera* c, CameraProperties*)
{
    if (!enter(c, "camera.set"))
        return Device_Err;
    DeviceStatusCode s = g_script.status();
    note(s);
    g->c.trace("      driver: camera.set -> %s", s ? "Err" : "Ok");
    return s;
}
DeviceStatusCode
m_cam_get(const Camera* c, CameraProperties* p)
{
    if (!enter(c, "camera.get"))
        return Device_Err;
    memset(p, 0, sizeof *p);
    DeviceStatusCode s = g_script.status();
    note(s);
    return s;
}
DeviceStatusCode
m_cam_get_meta(const Camera* c, CameraPropertyMetadata* m)
{
    if (!enter(c, "camera.get_meta"))
        return Device_Err;
    memset(m, 0, sizeof *m);
    return g_script.status();
}
DeviceStatusCode
m_cam_get_shape(const Camera* c, ImageShape* s)
{
    if (!enter(c, "camera.get_shape"))
        return Device_Err;
    memset(s, 0, sizeof *s);
    return g_script.status();
}
DeviceStatusCode
m_cam_start(Camera* c)
{
    MockDev* d = enter(c, "camera.start");
    if (!d)
        return Device_Err;
    DeviceStatusCode s = g_script.status();
    note(s);
    d->cam_started = (s == Device_Ok);
    if (s == Device_Ok)
        g->c.cls(CL_CAM_RUN);
    g->c.trace("      driver: camera.start -> %s", s ? "Err" : "Ok");
    return s;
}
DeviceStatusCode
m_cam_stop(Camera* c)
{
    MockDev* d = enter(c, "camera.stop");
    if (!d)
        return Device_Err;
    if (!d->cam_started)
        g->c.fail("C11", "stop-without-start", "camera", "driver camera.stop called on device #%d without a preceding successful start",
                  d->serial);
    d->cam_started = false;
    DeviceStatusCode s = g_script.status();
    note(s);
    g->c.trace("      driver: camera.stop -> %s", s ? "Err" : "Ok");
    return s;
}
DeviceStatusCode
m_cam_trigger(Camera* c)
{
    MockDev* d = enter(c, "camera.execute_trigger");
    if (!d)
        return Device_Err;
    DeviceStatusCode s = g_script.status();
    note(s);
    return s;
}
DeviceStatusCode
m_cam_get_frame(Camera* c, void* im, size_t* nbytes, ImageInfo* info)
{
    MockDev* d = enter(c, "camera.get_frame");
    if (!d)
        return Device_Err;
    if (!d->cam_started)
        g->c.fail("C11", "frame-outside-running", "camera", "driver camera.get_frame called on device #%d which is not running", d->serial);
    DeviceStatusCode s = g_script.status();
    note(s);
    if (im && nbytes && *nbytes)
        memset(im, 0x5a, *nbytes);
    if (info)
        memset(info, 0, sizeof *info);
    g->c.trace("      driver: camera.get_frame -> %s", s ? "Err" : "Ok");
    return s;
}

// ---- storage callbacks
void
note_state(DeviceState got, DeviceState natural)
{
    if (got != natural) {
        g->any_failure = true;
        g->c.cls(CL_FAIL_RESP);
        if ((int)got >= DeviceStateCount || got == DeviceState_Closed)
            g->c.cls(CL_ODD_STATE);
    }
}
DeviceState
m_st_set(Storage* s, const StorageProperties*)
{
    MockDev* d = enter(s, "storage.set");
    if (!d)
        return DeviceState_AwaitingConfiguration;
    DeviceState r = g_script.state(DeviceState_Armed);
    note_state(r, DeviceState_Armed);
    d->drv_state = r;
    g->c.trace("      driver: storage.set -> %s", device_state_as_string(r));
    return r;
}
void
m_st_get(const Storage* s, StorageProperties* p)
{
    if (!enter(s, "storage.get"))
        return;
    memset(p, 0, sizeof *p);
}
void
m_st_get_meta(const Storage* s, StoragePropertyMetadata* m)
{
    if (!enter(s, "storage.get_meta"))
        return;
    memset(m, 0, sizeof *m);
}
DeviceState
m_st_start(Storage* s)
{
    MockDev* d = enter(s, "storage.start");
    if (!d)
        return DeviceState_AwaitingConfiguration;
    DeviceState r = g_script.state(DeviceState_Running);
    note_state(r, DeviceState_Running);
    d->drv_state = r;
    if (r == DeviceState_Running)
        g->c.cls(CL_ST_RUN);
    g->c.trace("      driver: storage.start -> %s", device_state_as_string(r));
    return r;
}
DeviceState
m_st_append(Storage* s, const VideoFrame*, size_t*)
{
    MockDev* d = enter(s, "storage.append");
    if (!d)
        return DeviceState_AwaitingConfiguration;
    if (d->drv_state != DeviceState_Running)
        g->c.fail("C11", "append-outside-running", "storage", "driver storage.append called on device #%d whose last reported state is %s",
                  d->serial, device_state_as_string(d->drv_state));
    DeviceState r = g_script.state(DeviceState_Running);
    note_state(r, DeviceState_Running);
    d->drv_state = r;
    g->c.trace("      driver: storage.append -> %s", device_state_as_string(r));
    return r;
}
DeviceState
m_st_stop(Storage* s)
{
    MockDev* d = enter(s, "storage.stop");
    if (!d)
        return DeviceState_AwaitingConfiguration;
    if (d->drv_state != DeviceState_Running)
        g->c.fail("C11", "stop-without-start", "storage", "driver storage.stop called on device #%d whose last reported state is %s (not running)",
                  d->serial, device_state_as_string(d->drv_state));
    DeviceState r = g_script.state(DeviceState_Armed);
    note_state(r, DeviceState_Armed);
    d->drv_state = r;
    g->c.trace("      driver: storage.stop -> %s", device_state_as_string(r));
    return r;
}
void
m_st_destroy(Storage*)
{
}
void
m_st_reserve(Storage* s, const ImageShape*)
{
    enter(s, "storage.reserve_image_shape");
}

// ---- driver
uint32_t
m_count(Driver*)
{
    return 6;
}
DeviceStatusCode
m_describe(const Driver*, DeviceIdentifier* id, uint64_t i)
{
    DeviceStatusCode s = g_script.status();
    note(s);
    memset(id, 0, sizeof *id);
    id->device_id = (uint8_t)i;
    id->kind = i < 3 ? DeviceKind_Camera : DeviceKind_Storage;
    if (g->describe_kind_override >= 0)
        id->kind = (DeviceKind)g->describe_kind_override;
    snprintf(id->name, sizeof id->name, "mock-%d", (int)i);
    if (s != Device_Ok)
        g->c.cls(CL_DESCRIBE_FAIL);
    g->c.trace("      driver: describe(%d) -> %s", (int)i, s ? "Err" : "Ok");
    return s;
}
DeviceStatusCode
m_open(Driver* drv, uint64_t i, Device** out)
{
    DeviceStatusCode s = g_script.status();
    note(s);
    if (s != Device_Ok) {
        *out = nullptr;
        g->c.cls(CL_OPEN_FAIL);
        g->c.trace("      driver: open(%d) -> Err", (int)i);
        return s;
    }
    MockDev* d = new MockDev();
    memset(&d->u, 0, sizeof d->u);
    d->is_cam = i < 3;
    d->serial = (int)g->devs.size();
    if (d->is_cam) {
        Camera& c = d->u.cam;
        c.state = DeviceState_AwaitingConfiguration;
        c.set = m_cam_set;
        c.get = m_cam_get;
        c.get_meta = m_cam_get_meta;
        c.get_shape = m_cam_get_shape;
        c.start = m_cam_start;
        c.stop = m_cam_stop;
        c.execute_trigger = m_cam_trigger;
        c.get_frame = m_cam_get_frame;
        *out = &c.device;
    } else {
        Storage& st = d->u.st;
        st.state = DeviceState_AwaitingConfiguration;
        st.set = m_st_set;
        st.get = m_st_get;
        st.get_meta = m_st_get_meta;
        st.start = m_st_start;
        st.append = m_st_append;
        st.stop = m_st_stop;
        st.destroy = m_st_destroy;
        st.reserve_image_shape = m_st_reserve;
        *out = &st.device;
    }
    (*out)->driver = drv;
    g->devs.push_back(d);
    g->c.trace("      driver: open(%d) -> Ok (device #%d)", (int)i, d->serial);
    return Device_Ok;
}
DeviceStatusCode
m_close(Driver*, Device* in)
{
    MockDev* d = dev_of(in);
    if (!d) {
        g->c.fail("C11", "unknown-device", "close", "driver close received a pointer that is not a device it opened");
        return Device_Err;
    }
    d->closes++;
    if (d->closed) {
        g->c.fail("C11", "double-close", d->is_cam ? "camera" : "storage", "device #%d closed %d times", d->serial, d->closes);
        return Device_Err;
    }
    d->closed = true;
    if (d->is_cam ? d->cam_started : d->drv_state == DeviceState_Running)
        g->c.cls(CL_CLOSE_WHILE_RUNNING);
    // the device is released: from now on its memory must not change (kept, not freed, so that a
    // later write is an oracle failure with an offset rather than a process abort)
    d->snapshot.assign((uint8_t*)&d->u, (uint8_t*)&d->u + sizeof d->u);
    DeviceStatusCode s = g_script.status();
    g->c.trace("      driver: close(device #%d) -> %s", d->serial, s ? "Err" : "Ok");
    // ... and must not even be read: a real driver frees it here.  Under AddressSanitizer the object is
    // poisoned, so any access by the code under test (also a write of the value already there) aborts
    // the case with a use-after-poison report.
    POISON(&d->u, sizeof d->u);
    return s;
}
DeviceStatusCode
m_shutdown(Driver*)
{
    return Device_Ok;
}

void
check_released(Ctx& x, const char* where)
{
    for (MockDev* d : x.devs)
        if (d->closed && !x.c.ended) {
            const uint8_t* p = (const uint8_t*)&d->u;
            UNPOISON(&d->u, sizeof d->u);
            std::vector<uint8_t> now(p, p + sizeof d->u);
            POISON(&d->u, sizeof d->u);
            p = now.data();
            for (size_t k = 0; k < d->snapshot.size(); ++k)
                if (p[k] != d->snapshot[k]) {
                    // (which field it is, is derived without offsetof: the struct layout belongs to the code under
                    // test and may change, e.g. the state becoming a bit-field)
                    const char* field = "other";
                    {
                        MockDev probe;
                        memset(&probe.u, 0, sizeof probe.u);
                        if (d->is_cam)
                            probe.u.cam.state = (DeviceState)7;
                        else
                            probe.u.st.state = (DeviceState)7;
                        if (((const uint8_t*)&probe.u)[k])
                            field = "state";
                    }
                    x.c.fail("C11", "write-after-close", field, "%s: released device #%d (%s) was written at byte offset %zu (field: %s)", where,
                             d->serial, d->is_cam ? "camera" : "storage", k, field);
                    return;
                }
        }
}

void
check_states(Ctx& x, const char* where)
{
    for (int i = 0; i < 3 && !x.c.ended; ++i) {
        if (x.cam[i]) {
            DeviceState s = camera_get_state(x.cam[i]);
            if (s != x.cam_model[i])
                x.c.fail("C11", "camera-state-model", device_state_as_string(x.cam_model[i]), "%s: camera slot %d reports %s, the driver's responses imply %s",
                         where, i, device_state_as_string(s), device_state_as_string(x.cam_model[i]));
        }
        if (x.st[i] && !x.c.ended) {
            DeviceState s = storage_get_state(x.st[i]);
            if (s != x.st_model[i])
                x.c.fail("C11", "storage-state-model", device_state_as_string(x.st_model[i]), "%s: storage slot %d reports %s, the driver's last response was %s",
                         where, i, device_state_as_string(s), device_state_as_string(x.st_model[i]));
        }
    }
}

DeviceManager g_dm;

} // namespace

void
quiet_reporter(int, const char*, int, const char*, const char*)
{
}

// The mock driver is handed to the HAL the way every driver is: wrapped by the real loader (loader.c),
// which dlopens libvhalmock.so next to the executable; that trampoline calls back vmock_driver_init.
Driver* g_wrapped = nullptr;
extern "C" struct Driver*
vmock_driver_init(void (*)(int, const char*, int, const char*, const char*))
{
    return &g_driver;
}
extern "C" struct Driver* driver_load(const char* relative_path, void (*reporter)(int, const char*, int, const char*, const char*));

// The HAL asks the device manager for the driver of an identifier: always the (wrapped) mock driver.
extern "C" struct Driver*
device_manager_get_driver(const struct DeviceManager*, const struct DeviceIdentifier*)
{
    return g_wrapped ? g_wrapped : &g_driver;
}

extern "C" const VhSpec*
vh_spec(void)
{
    return &kSpec;
}

extern "C" int
vh_run(const VhTok* tape, size_t n, VhReport* rep)
{
    Ctx* px = new Ctx();
    Ctx& x = *px;
    g = px;
    x.c.begin(rep, &kSpec);
    g_driver.device_count = m_count;
    g_driver.describe = m_describe;
    g_driver.open = m_open;
    g_driver.close = m_close;
    g_driver.shutdown = m_shutdown;
    if (!g_wrapped) {
        g_wrapped = driver_load("vhalmock", quiet_reporter);
        if (!g_wrapped) {
            fprintf(stderr, "hal harness: cannot load libvhalmock.so through the loader\n");
            abort();
        }
    }

    static uint8_t framebuf[256];
    static uint64_t vf_storage[64];

    for (size_t ti = 0; ti < n && !x.c.ended; ++ti) {
        const VhTok& t = tape[ti];
        int kind = t.kind % K_COUNT;
        int s = t.a % 3;
        {
            // pick a slot for which the call makes sense: an empty one for open, an open one otherwise
            bool is_cam = kind <= K_CAM_FRAME;
            bool is_open = kind == K_CAM_OPEN || kind == K_ST_OPEN;
            if (kind != K_ST_VALIDATE)
                for (int k = 0; k < 3; ++k) {
                    int cand = (s + k) % 3;
                    bool occupied = is_cam ? x.cam[cand] != nullptr : x.st[cand] != nullptr;
                    if (occupied != is_open) {
                        s = cand;
                        break;
                    }
                }
        }
        rep->steps++;
        x.c.mix(kind * 131u + s);
        x.c.mix(t.b | ((uint64_t)t.c << 16));
        g_script.bits = t.b;
        g_script.used = 0;
        bool failure_before = x.any_failure;
        switch (kind) {
            case K_CAM_OPEN: {
                if (x.cam[s])
                    break;
                DeviceIdentifier id;
                memset(&id, 0, sizeof id);
                id.kind = DeviceKind_Camera;
                id.device_id = (uint8_t)s;
                x.c.trace("camera_open slot=%d", s);
                x.cam[s] = camera_open(&g_dm, &id);
                x.c.trace("   -> %s", x.cam[s] ? "device" : "NULL");
                x.cam_fail_seen[s] = false;
                if (x.cam[s])
                    x.cam_model[s] = DeviceState_AwaitingConfiguration;
                // optionally configure (and start) right away so that deep states are common
                if (x.cam[s] && ((t.a / 3) & 1)) {
                    CameraProperties p;
                    memset(&p, 0, sizeof p);
                    x.c.trace("camera_set slot=%d", s);
                    if (camera_set(x.cam[s], &p) == Device_Ok)
                        x.cam_model[s] = DeviceState_Armed;
                    else {
                        x.cam_model[s] = DeviceState_AwaitingConfiguration;
                        x.cam_fail_seen[s] = true;
                    }
                    if ((t.a / 6) & 1) {
                        x.c.trace("camera_start slot=%d", s);
                        DeviceStatusCode r = camera_start(x.cam[s]);
                        x.cam_model[s] = r == Device_Ok ? DeviceState_Running : DeviceState_AwaitingConfiguration;
                        if (r != Device_Ok)
                            x.cam_fail_seen[s] = true;
                    }
                }
                break;
            }
            case K_CAM_CLOSE: {
                if (!x.cam[s])
                    break;
                x.c.trace("camera_close slot=%d", s);
                if (x.cam_fail_seen[s]) {
                    x.c.cls(CL_CLOSE_AFTER_FAILURE);
                    x.c.nontrivial(0);
                }
                camera_close(x.cam[s]);
                x.cam[s] = nullptr;
                break;
            }
            case K_CAM_SET: {
                if (!x.cam[s])
                    break;
                CameraProperties p;
                memset(&p, 0, sizeof p);
                x.c.trace("camera_set slot=%d", s);
                DeviceStatusCode r = camera_set(x.cam[s], &p);
                if (r == Device_Ok) {
                    if (x.cam_model[s] != DeviceState_Running)
                        x.cam_model[s] = DeviceState_Armed;
                } else {
                    x.cam_model[s] = DeviceState_AwaitingConfiguration;
                    x.cam_fail_seen[s] = true;
                }
                break;
            }
            case K_CAM_GET: {
                if (!x.cam[s])
                    break;
                CameraProperties p;
                CameraPropertyMetadata m;
                ImageShape sh;
                x.c.trace("camera_get / get_meta / get_image_shape slot=%d", s);
                camera_get(x.cam[s], &p);
                camera_get_meta(x.cam[s], &m);
                camera_get_image_shape(x.cam[s], &sh);
                break;
            }
            case K_CAM_START: {
                if (!x.cam[s])
                    break;
                x.c.trace("camera_start slot=%d   (HAL state %s)", s, device_state_as_string(x.cam_model[s]));
                DeviceStatusCode r = camera_start(x.cam[s]);
                x.cam_model[s] = r == Device_Ok ? DeviceState_Running : DeviceState_AwaitingConfiguration;
                if (r != Device_Ok)
                    x.cam_fail_seen[s] = true;
                break;
            }
            case K_CAM_STOP: {
                if (!x.cam[s])
                    break;
                x.c.trace("camera_stop slot=%d   (HAL state %s)", s, device_state_as_string(x.cam_model[s]));
                if (x.cam_fail_seen[s]) {
                    x.c.cls(CL_STOP_DECISION_AFTER_FAILURE);
                    x.c.nontrivial(0);
                }
                bool was_running = x.cam_model[s] == DeviceState_Running;
                DeviceStatusCode r = camera_stop(x.cam[s]);
                if (was_running) {
                    x.cam_model[s] = r == Device_Ok ? DeviceState_Armed : DeviceState_AwaitingConfiguration;
                    if (r != Device_Ok)
                        x.cam_fail_seen[s] = true;
                }
                break;
            }
            case K_CAM_TRIGGER: {
                if (!x.cam[s])
                    break;
                x.c.trace("camera_execute_trigger slot=%d", s);
                camera_execute_trigger(x.cam[s]);
                break;
            }
            case K_CAM_FRAME: {
                if (!x.cam[s])
                    break;
                size_t nb = sizeof framebuf;
                ImageInfo info;
                x.c.trace("camera_get_frame slot=%d   (HAL state %s)", s, device_state_as_string(x.cam_model[s]));
                bool was_running = x.cam_model[s] == DeviceState_Running;
                if (!was_running)
                    x.c.cls(CL_FRAME_WHEN_NOT_RUNNING);
                if (x.cam_fail_seen[s]) {
                    x.c.cls(CL_STOP_DECISION_AFTER_FAILURE);
                    x.c.nontrivial(0);
                }
                DeviceStatusCode r = camera_get_frame(x.cam[s], framebuf, &nb, &info);
                if (was_running && r != Device_Ok) {
                    x.cam_model[s] = DeviceState_AwaitingConfiguration;
                    x.cam_fail_seen[s] = true;
                }
                break;
            }
            case K_ST_OPEN: {
                if (x.st[s])
                    break;
                DeviceIdentifier id;
                memset(&id, 0, sizeof id);
                id.kind = DeviceKind_Storage;
                id.device_id = (uint8_t)(3 + s);
                x.c.trace("storage_open slot=%d", s);
                x.st[s] = storage_open(&g_dm, &id);
                x.c.trace("   -> %s", x.st[s] ? "device" : "NULL");
                x.st_fail_seen[s] = false;
                if (x.st[s])
                    x.st_model[s] = DeviceState_AwaitingConfiguration;
                if (x.st[s] && ((t.a / 3) & 1)) {
                    MockDev* d = dev_of(x.st[s]);
                    StorageProperties p;
                    memset(&p, 0, sizeof p);
                    x.c.trace("storage_set slot=%d", s);
                    storage_set(x.st[s], &p);
                    x.st_model[s] = d->drv_state;
                    if (d->drv_state != DeviceState_Armed)
                        x.st_fail_seen[s] = true;
                    if (((t.a / 6) & 1) && x.st_model[s] == DeviceState_Armed) {
                        x.c.trace("storage_start slot=%d", s);
                        storage_start(x.st[s]);
                        x.st_model[s] = d->drv_state;
                        if (d->drv_state != DeviceState_Running)
                            x.st_fail_seen[s] = true;
                    }
                }
                break;
            }
            case K_ST_CLOSE: {
                if (!x.st[s])
                    break;
                x.c.trace("storage_close slot=%d   (HAL state %s)", s, device_state_as_string(x.st_model[s]));
                if (x.st_fail_seen[s]) {
                    x.c.cls(CL_CLOSE_AFTER_FAILURE);
                    x.c.nontrivial(0);
                }
                storage_close(x.st[s]);
                x.st[s] = nullptr;
                break;
            }
            case K_ST_SET: {
                if (!x.st[s])
                    break;
                StorageProperties p;
                memset(&p, 0, sizeof p);
                x.c.trace("storage_set slot=%d", s);
                MockDev* d = dev_of(x.st[s]);
                storage_set(x.st[s], &p);
                x.st_model[s] = d->drv_state;
                if (d->drv_state != DeviceState_Armed)
                    x.st_fail_seen[s] = true;
                break;
            }
            case K_ST_GET: {
                if (!x.st[s])
                    break;
                StorageProperties p;
                StoragePropertyMetadata m;
                x.c.trace("storage_get / get_meta slot=%d", s);
                storage_get(x.st[s], &p);
                storage_get_meta(x.st[s], &m);
                break;
            }
            case K_ST_START: {
                if (!x.st[s])
                    break;
                x.c.trace("storage_start slot=%d   (HAL state %s)", s, device_state_as_string(x.st_model[s]));
                MockDev* d = dev_of(x.st[s]);
                bool will_call = x.st_model[s] == DeviceState_Armed;
                storage_start(x.st[s]);
                if (will_call) {
                    x.st_model[s] = d->drv_state;
                    if (d->drv_state != DeviceState_Running)
                        x.st_fail_seen[s] = true;
                }
                break;
            }
            case K_ST_STOP: {
                if (!x.st[s])
                    break;
                x.c.trace("storage_stop slot=%d   (HAL state %s)", s, device_state_as_string(x.st_model[s]));
                MockDev* d = dev_of(x.st[s]);
                if (x.st_fail_seen[s]) {
                    x.c.cls(CL_STOP_DECISION_AFTER_FAILURE);
                    x.c.nontrivial(0);
                }
                bool will_call = x.st_model[s] == DeviceState_Running;
                storage_stop(x.st[s]);
                if (will_call) {
                    x.st_model[s] = d->drv_state;
                    if (d->drv_state != DeviceState_Armed)
                        x.st_fail_seen[s] = true;
                }
                break;
            }
            case K_ST_APPEND: {
                if (!x.st[s])
                    break;
                MockDev* d = dev_of(x.st[s]);
                size_t nfr = t.c % 4; // 0: empty packet
                x.c.trace("storage_append slot=%d bytes=%zu   (HAL state %s)", s, nfr * 64, device_state_as_string(x.st_model[s]));
                bool will_call = x.st_model[s] == DeviceState_Running && nfr > 0;
                if (x.st_model[s] != DeviceState_Running)
                    x.c.cls(CL_APPEND_WHEN_NOT_RUNNING);
                if (x.st_fail_seen[s]) {
                    x.c.cls(CL_STOP_DECISION_AFTER_FAILURE);
                    x.c.nontrivial(0);
                }
                const VideoFrame* beg = (const VideoFrame*)vf_storage;
                const VideoFrame* end = (const VideoFrame*)((const uint8_t*)vf_storage + nfr * 64);
                storage_append(x.st[s], beg, end);
                if (will_call) {
                    x.st_model[s] = d->drv_state;
                    if (d->drv_state != DeviceState_Running)
                        x.st_fail_seen[s] = true;
                }
                break;
            }
            case K_ST_RESERVE: {
                if (!x.st[s])
                    break;
                ImageShape sh;
                memset(&sh, 0, sizeof sh);
                x.c.trace("storage_reserve_image_shape slot=%d", s);
                storage_reserve_image_shape(x.st[s], &sh);
                break;
            }
            case K_ST_VALIDATE: {
                DeviceIdentifier id;
                memset(&id, 0, sizeof id);
                id.kind = DeviceKind_Storage;
                id.device_id = (uint8_t)(3 + s);
                StorageProperties p;
                memset(&p, 0, sizeof p);
                x.c.cls(CL_VALIDATE);
                // rarely the driver describes a device of another kind
                x.describe_kind_override = (t.a / 3) % 8 == 7 ? DeviceKind_Camera : -1;
                x.c.trace("storage_validate device_id=%d%s", 3 + s, x.describe_kind_override >= 0 ? "   (driver will describe it as a camera)" : "");
                storage_validate(&g_dm, &id, &p);
                x.describe_kind_override = -1;
                break;
            }
        }
        (void)failure_before;
        if (!x.c.ended)
            check_released(x, kKinds[kind].name);
        if (!x.c.ended)
            check_states(x, kKinds[kind].name);
    }

    if (!x.c.ended) {
        x.c.trace("END: close every open slot");
        g_script.bits = 0;
        for (int i = 0; i < 3 && !x.c.ended; ++i) {
            g_script.used = 0;
            if (x.cam[i]) {
                camera_close(x.cam[i]);
                x.cam[i] = nullptr;
            }
            g_script.used = 0;
            if (x.st[i] && !x.c.ended) {
                storage_close(x.st[i]);
                x.st[i] = nullptr;
            }
            if (!x.c.ended)
                check_released(x, "final close");
        }
        for (MockDev* d : x.devs)
            if (!x.c.ended && d->closes != 1)
                x.c.fail("C11", "close-count", d->closes == 0 ? "never-closed" : "closed-twice",
                         "device #%d (%s) was opened by the driver and closed %d times", d->serial, d->is_cam ? "camera" : "storage", d->closes);
    }
    for (MockDev* d : x.devs) {
        UNPOISON(&d->u, sizeof d->u);
        delete d;
    }
    g = nullptr;
    delete px;
    return rep->verdict;
}
