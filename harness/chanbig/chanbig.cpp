// Harness `chanbig` (size part of C01, C02, C03): the real channel.c with a capacity ABOVE 4 GiB.
// The buffer is an untouched anonymous mapping (channel.c is compiled with memset renamed, so
// channel_new does not fill it); writes are hundreds of MiB to more than a GiB and only stamp a
// 24-byte header and an 8-byte trailer, so a case touches a few pages.  The model is an extent list
// (global offset, length) per committed write; readers consume whole extents.  Everything runs on
// vsim, so a writer that sleeps although the readers have consumed everything is a verdict, not a hang.
// See DESIGN.md section 3, "Second-session additions".
#include "vhx.hpp"
#include "vsim/vsim.h"

#include <sys/mman.h>
#include <vector>

extern "C"
{
#include "runtime/channel.h"
}

namespace {

enum
{
    K_WRITE,   // map + stamp + commit (a: size class, b: fine size)
    K_ABORTW,  // map + abort
    K_READ,    // reader r: map, check, consume (mode)
    K_COUNT
};

const VhKindSpec kKinds[K_COUNT] = {
    { "WRITE", 10, 255, 65535, 0, 0 },
    { "ABORTW", 1, 255, 65535, 0, 0 },
    { "READ", 8, 255, 255, 0, 0 },
};

enum
{
    CL_BEYOND_4G,
    CL_WRAP,
    CL_READER_BEHIND_4G,
    CL_TWO_READERS,
    CL_PARTIAL,
    CL_WRITER_BLOCKED,
};

const VhSpec kSpec = {
    "chanbig",
    kKinds,
    K_COUNT,
    40,
    { "C01", "C02", "C03", nullptr },
    { "write_head_beyond_4GiB", "wrapped", "reader_more_than_4GiB_behind", "two_readers", "partial_consume", "writer_blocked_then_released", nullptr },
    { "size part: the write head passed 4 GiB while a reader still had unconsumed data, or the ring wrapped",
      "size part: a region was handed to the writer after the head passed 4 GiB with unconsumed extents present",
      "size part: the writer was seen asleep and was released by a reader",
      nullptr },
};

struct Extent
{
    uint64_t g;   // global offset of the first byte
    uint64_t len;
    uint64_t phys; // offset in the buffer
};

struct Hdr
{
    uint64_t magic, g, len;
};
const uint64_t MAGIC = 0x6368616e62696721ull;

struct Reader
{
    channel_reader r;
    uint64_t next = 0; // global offset of the first unconsumed byte (valid when known)
    bool joined = false;
    bool known = false; // a fresh reader starts where the channel puts it: its first read tells
};

struct Ctx
{
    VhCase c;
    channel ch;
    uint8_t* B = nullptr;
    size_t cap = 0;
    std::vector<Extent> ext; // committed, in order
    uint64_t G = 0;
    Reader rd[2];
    int wf = -1;
    size_t wn = 0;
    uint8_t* wptr = nullptr;
    bool wdone = false;
    int wcmd = 0; // 1 map
};

Ctx* g = nullptr;
uint8_t* g_buf = nullptr;
size_t g_buf_cap = 0;

void
writer_main(void*)
{
    Ctx& x = *g;
    for (;;) {
        vsim::park();
        if (x.wcmd == 1)
            x.wptr = (uint8_t*)channel_write_map(&x.ch, x.wn);
        x.wdone = true;
    }
}

uint64_t
min_next(Ctx& x)
{
    uint64_t m = x.G;
    for (auto& r : x.rd)
        if (r.joined && r.known && r.next < m)
            m = r.next;
    return m;
}

// map + consume for reader ri.  mode 0: all, 1: nothing, 2: the first extent only
void
do_read(Ctx& x, int ri, unsigned mode)
{
    Reader& r = x.rd[ri];
    r.joined = true;
    slice s = channel_read_map(&x.ch, &r.r);
    if (r.r.status != Channel_Ok) {
        x.c.fail("C01", "reader-status", "size-part", "reader %d status became %d after read_map (write head at %llu, reader at %llu)", ri, (int)r.r.status,
                 (unsigned long long)x.G, (unsigned long long)r.next);
        return;
    }
    size_t len = (s.beg && s.end > s.beg) ? (size_t)(s.end - s.beg) : 0;
    x.c.trace("READ reader=%d -> %zu bytes at buffer offset %zu", ri, len, len ? (size_t)(s.beg - x.B) : 0);
    if (!len) {
        if (r.known && r.next != x.G) {
            x.c.fail("C01", "spurious-empty", "size-part", "reader %d got an empty region although it consumed only up to %llu of %llu committed bytes", ri,
                     (unsigned long long)r.next, (unsigned long long)x.G);
            return;
        }
        r.known = true;
        r.next = x.G;
        return;
    }
    if (s.beg < x.B || s.end > x.B + x.cap) {
        x.c.fail("C02", "read-region-in-buffer", "size-part", "read_map returned a region outside the buffer");
        return;
    }
    // (another property's run: when the reader's stream is broken C01 has said so; the reader consumes what it
    // was given and its cursor is unknown from then on, so that the C02 / C03 oracles still see what follows)
    auto lost = [&]() {
        channel_read_unmap(&x.ch, &r.r, len);
        r.known = false;
    };
    // walk the extents in the region
    uint64_t off = 0, consumed_one = 0;
    int n = 0;
    uint64_t expect = r.next;
    while (off < len) {
        if (len - off < sizeof(Hdr) + 8) {
            if (x.c.fail_soft("C01", "region-not-extents", "size-part", "reader %d: %llu stray bytes at the end of its region", ri, (unsigned long long)(len - off)))
                return;
            {
                lost();
                return;
            }
        }
        Hdr h;
        memcpy(&h, s.beg + off, sizeof h);
        if (h.magic != MAGIC) {
            if (x.c.fail_soft("C01", "read-not-at-boundary", "size-part", "reader %d: region offset %llu does not start a committed write (write head at %llu: %s 4 GiB)", ri,
                     (unsigned long long)off, (unsigned long long)x.G, x.G > (4ull << 30) ? "beyond" : "below"))
                return;
            {
                lost();
                return;
            }
        }
        if (n == 0 && !r.known)
            expect = h.g; // first non-empty read of a fresh reader: it starts at a write boundary of the channel's choice
        if (h.g != expect) {
            if (x.c.fail_soft("C01", "read-not-at-cursor", h.g > expect ? "gap" : "repeat", "reader %d expected committed offset %llu next but found the write at offset %llu", ri,
                     (unsigned long long)expect, (unsigned long long)h.g))
                return;
            {
                lost();
                return;
            }
        }
        if (h.len > len - off) {
            if (x.c.fail_soft("C01", "region-truncated", "size-part", "reader %d: the write at offset %llu (%llu bytes) does not fit in the rest of the region", ri,
                     (unsigned long long)h.g, (unsigned long long)h.len))
                return;
            {
                lost();
                return;
            }
        }
        uint64_t tr;
        memcpy(&tr, s.beg + off + h.len - 8, 8);
        if (tr != (h.g ^ MAGIC)) {
            if (x.c.fail_soft("C01", "read-content", "trailer", "reader %d: the last bytes of the write at offset %llu were altered", ri, (unsigned long long)h.g))
                return;
            {
                lost();
                return;
            }
        }
        if (n == 0)
            consumed_one = h.len;
        off += h.len;
        expect += h.len;
        ++n;
    }
    uint64_t start = expect - len;
    if (x.G > (4ull << 30) && x.G - start > (4ull << 30))
        x.c.cls(CL_READER_BEHIND_4G);
    size_t k = mode == 0 ? len : mode == 1 ? 0 : (size_t)consumed_one;
    if (k && k < len)
        x.c.cls(CL_PARTIAL);
    channel_read_unmap(&x.ch, &r.r, k);
    r.next = start + k;
    r.known = true;
    x.c.trace("    consumed %zu of %zu bytes (%d writes); cursor %llu of %llu", k, len, n, (unsigned long long)r.next, (unsigned long long)x.G);
}

void
run_writer(Ctx& x)
{
    while (vsim::info(x.wf).st == vsim::RUNNABLE)
        vsim::step(x.wf);
}

void
do_write(Ctx& x, size_t n, bool abort)
{
    x.wn = n;
    x.wcmd = 1;
    x.wdone = false;
    vsim::unpark(x.wf);
    run_writer(x);
    bool blocked = !x.wdone;
    if (blocked) {
        // asleep inside write_map: readers consume everything, then it must come back
        x.c.trace("WRITE n=%zu: writer asleep; readers consume everything", n);
        for (int round = 0; round < 6 && !x.wdone && !x.c.ended; ++round) {
            for (int ri = 0; ri < 2 && !x.c.ended; ++ri)
                if (x.rd[ri].joined)
                    do_read(x, ri, 0);
            run_writer(x);
        }
        if (x.c.ended)
            return;
        if (!x.wdone) {
            x.c.fail("C03", "release-lost", "size-part", "every reader has consumed everything (%llu bytes committed) yet the writer is still asleep inside write_map(%zu)",
                     (unsigned long long)x.G, n);
            return;
        }
        x.c.cls(CL_WRITER_BLOCKED);
        x.c.nontrivial(2);
    }
    x.wcmd = 0;
    if (!x.wptr) {
        x.c.fail("C02", "null-without-refusal", "size-part", "write_map(%zu) returned NULL although %zu < capacity and writes are accepted", n, n);
        return;
    }
    size_t off = (size_t)(x.wptr - x.B);
    if (x.wptr < x.B || off + n > x.cap) {
        x.c.fail("C02", "write-region-in-buffer", "size-part", "write_map(%zu) returned a region outside the buffer", n);
        return;
    }
    // no overlap with extents some reader has not consumed
    uint64_t mn = min_next(x);
    for (const Extent& e : x.ext) {
        if (e.g + e.len <= mn)
            continue; // consumed by every reader
        if (off < e.phys + e.len && e.phys < off + n) {
            x.c.fail("C02", "write-overlaps-unconsumed", "size-part", "write_map(%zu) handed out [%zu,%zu) which overlaps the unconsumed write at offset %llu (buffer [%llu,%llu))", n, off,
                     off + n, (unsigned long long)e.g, (unsigned long long)e.phys, (unsigned long long)(e.phys + e.len));
            return;
        }
    }
    if (!x.ext.empty() && off < x.ext.back().phys)
        x.c.cls(CL_WRAP), x.c.nontrivial(0);
    if (abort) {
        x.c.trace("WRITE n=%zu -> region [%zu,%zu), aborted", n, off, off + n);
        channel_abort_write(&x.ch);
        channel_write_unmap(&x.ch);
        return;
    }
    Hdr h{ MAGIC, x.G, n };
    memcpy(x.wptr, &h, sizeof h);
    uint64_t tr = x.G ^ MAGIC;
    memcpy(x.wptr + n - 8, &tr, 8);
    channel_write_unmap(&x.ch);
    x.ext.push_back(Extent{ x.G, n, off });
    x.G += n;
    if (x.G > (4ull << 30)) {
        x.c.cls(CL_BEYOND_4G);
        if (min_next(x) < x.G - n)
            x.c.nontrivial(0), x.c.nontrivial(1);
    }
    // forget extents every joined reader has consumed (keep the list short)
    uint64_t m2 = min_next(x);
    while (x.ext.size() > 64 && x.ext.front().g + x.ext.front().len <= m2)
        x.ext.erase(x.ext.begin());
    x.c.trace("WRITE n=%zu -> region [%zu,%zu) = committed offsets [%llu,%llu)", n, off, off + n, (unsigned long long)(x.G - n), (unsigned long long)x.G);
}

} // namespace

// channel.c is compiled with -Dmemory_alloc=vh_memory_alloc -Dmemory_free=vh_memory_free -Dmemset=vh_memset
extern "C" void*
vh_memory_alloc(size_t n, enum AllocatorHint)
{
    if (!g_buf || g_buf_cap < n) {
        if (g_buf)
            munmap(g_buf, g_buf_cap);
        g_buf = (uint8_t*)mmap(nullptr, n, PROT_READ | PROT_WRITE, MAP_PRIVATE | MAP_ANONYMOUS | MAP_NORESERVE, -1, 0);
        if (g_buf == MAP_FAILED) {
            g_buf = nullptr;
            return nullptr;
        }
        g_buf_cap = n;
    } else
        madvise(g_buf, g_buf_cap, MADV_DONTNEED); // zero pages again, give the touched ones back
    return g_buf;
}
extern "C" void
vh_memory_free(void*)
{
}
extern "C" void*
vh_memset(void* p, int c, size_t n)
{
    if (n > (64u << 20))
        return p; // the untouched mapping already reads as zero
    return memset(p, c, n);
}

extern "C" const VhSpec*
vh_spec(void)
{
    return &kSpec;
}

extern "C" int
vh_run(const VhTok* tape, size_t n, VhReport* rep)
{
    Ctx* px = new Ctx();
    Ctx& x = *px;
    g = px;
    x.c.begin(rep, &kSpec);
    vsim::reset();
    static const size_t caps[4] = { (4608ull << 20), (6ull << 30), (4ull << 30) + 4096, (5ull << 30) + 123456 };
    x.cap = n ? caps[(tape[0].a >> 6) & 3] : caps[0];
    channel_new(&x.ch, x.cap);
    x.B = x.ch.data;
    if (!x.B) {
        delete px;
        g = nullptr;
        return 0; // no address space: nothing to say
    }
    x.c.trace("CFG capacity=%zu (%.2f GiB)", x.cap, (double)x.cap / (double)(1ull << 30));
    x.c.mix(x.cap);
    x.wf = vsim::spawn(writer_main, nullptr, "writer");
    vsim::step(x.wf);
    for (size_t ti = 0; ti < n && !x.c.ended; ++ti) {
        const VhTok& t = tape[ti];
        int kind = t.kind % K_COUNT;
        rep->steps++;
        x.c.mix(kind * 31u + t.a);
        x.c.mix(t.b);
        switch (kind) {
            case K_WRITE:
            case K_ABORTW: {
                static const size_t base[8] = { 64ull << 20, 256ull << 20, 700ull << 20, 1ull << 30, 1536ull << 20, 2047ull << 20, 100ull << 20, 1200ull << 20 };
                size_t sz = base[t.a % 8] + (size_t)t.b * 4099u;
                if (sz >= x.cap)
                    sz = x.cap - 1;
                // leave room: a write larger than what a full drain could free would block for good by design
                do_write(x, sz, kind == K_ABORTW);
                break;
            }
            case K_READ: {
                int ri = t.a & 1;
                if (x.rd[0].joined && x.rd[1].joined)
                    x.c.cls(CL_TWO_READERS);
                do_read(x, ri, (t.a >> 1) % 3);
                break;
            }
        }
        if (vsim::error() && !x.c.ended)
            x.c.fail("C03", "platform-misuse", "vsim", "%s", vsim::error());
    }
    // drain
    if (!x.c.ended)
        for (int round = 0; round < 8 && !x.c.ended; ++round) {
            bool all = true;
            for (int ri = 0; ri < 2 && !x.c.ended; ++ri)
                if (x.rd[ri].joined) {
                    do_read(x, ri, 0);
                    all &= x.rd[ri].known && x.rd[ri].next == x.G;
                }
            if (all)
                break;
            if (round == 7)
                x.c.fail("C03", "drain-bound", "size-part", "a reader needed more than 8 map/unmap rounds to drain an idle channel (cursor never reaches %llu)",
                         (unsigned long long)x.G);
        }
    vsim::reset();
    g = nullptr;
    delete px;
    return rep->verdict;
}
