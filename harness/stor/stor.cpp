// Harness `stor` (C14, C15, C16): the shipped storage devices (raw, tiff, tiff-json, trash) opened
// through the real driver table and driven through the HAL storage API, with platform.c's file
// calls routed through the vfd ledger / fault injector.  Oracles: byte-exact raw file (C14),
// independent BigTIFF + JSON reader (C15), descriptor ledger + failure reporting (C16).
// See DESIGN.md section 3, harness `stor`.
#include "tiffread.hpp"
#include "vfd/vfd.h"
#include "vhx.hpp"

#include <dirent.h>
#include <errno.h>
#include <string>
#include <fcntl.h>
#include <sys/mman.h>
#include <sys/stat.h>
#include <unistd.h>
#include <vector>

extern "C"
{
#include "device/hal/device.manager.h"
#include "device/hal/driver.h"
#include "device/hal/storage.h"
#include "device/kit/driver.h"
#include "identifiers.h"
#include "logger.h"
    struct Driver* acquire_driver_init_v0(void (*reporter)(int, const char*, int, const char*, const char*));
}

namespace {

enum
{
    K_ACQ,     // macro: set(fresh path) + start + frames (grouped) + stop
    K_OPEN,
    K_SET,
    K_START,
    K_FRAME,
    K_APPEND,
    K_STOP,
    K_CLOSE,
    K_SHORT,
    K_FAIL,
    K_BIGACQ,  // a tiff / tiff-json acquisition of a few ~1 GiB frames (sparse): file offsets beyond 4 GiB
    K_INTRUDER, // a second device is pointed at the running device's output and started: refused, and harmless
    K_SWITCH,   // park the active device as it is and work with the other one
    K_CROSS,    // scenario macro: see do_cross
    K_COUNT
};

const VhKindSpec kKinds[K_COUNT] = {
    { "ACQ", 6, 255, 65535, 65535, 65535 },  { "OPEN", 2, 255, 0, 0, 0 },          { "SET", 3, 255, 65535, 65535, 65535 },
    { "START", 3, 0, 0, 0, 65535 },          { "FRAME", 8, 255, 65535, 65535, 65535 }, { "APPEND", 3, 0, 0, 0, 65535 },
    { "STOP", 3, 0, 0, 0, 65535 },           { "CLOSE", 2, 0, 0, 0, 0 },           { "SHORT", 2, 255, 65535, 0, 0 },
    { "FAIL", 3, 255, 255, 1, 0 },           { "BIGACQ", 1, 255, 65535, 0, 0 },
    { "INTRUDER", 2, 255, 0, 0, 0 },          { "SWITCH", 3, 0, 0, 0, 0 },
    { "CROSS", 2, 255, 65535, 65535, 0 },
};

enum
{
    CL_RAW,
    CL_TIFF,
    CL_TIFFJSON,
    CL_TRASH,
    CL_TWO_ACQ_ONE_DEVICE,
    CL_SHORT_IN_MULTIFRAME_PACKET,
    CL_SHORT,
    CL_ZERO_WRITE,
    CL_MULTI_PACKET,
    CL_FILE_URI,
    CL_ABS_PATH,
    CL_METADATA,
    CL_METADATA_EMPTY_AFTER_NONEMPTY,
    CL_SET_REJECTED,
    CL_FAULT_FIRED,
    CL_FAULT_OPEN,
    CL_FAULT_FLOCK,
    CL_FAULT_PWRITE,
    CL_FAULT_PERSISTENT,
    CL_USED_AFTER_FAULT,
    CL_APPEND_FAILED_REPORTED,
    CL_CLOSE_WHILE_RUNNING,
    CL_CLOSE_WITHOUT_START,
    CL_START_STOP_NO_FRAMES,
    CL_F32,
    CL_ODD_SIZE,
    CL_RAW_CHECKED,
    CL_TIFF_CHECKED,
    CL_RESTART_WITHOUT_SET,
    CL_BEYOND_4GIB,
    CL_INTRUDER_REFUSED,
    CL_INTRUDER_ADMITTED,
    CL_TWO_DEVICES,
    CL_TWO_DEVICES_RUNNING,
    CL_CROSS,
    CL_URI_OVERSIZED_BUFFER,
    CL_LONG_PATH,
    CL_MANY_FDS,
};

const VhSpec kSpec = {
    "stor",
    kKinds,
    K_COUNT,
    60,
    { "C14", "C15", "C16", "C13", nullptr },
    { "raw", "tiff", "tiff_json", "trash", "two_acquisitions_one_device", "short_write_inside_multiframe_packet", "short_writes",
      "zero_length_write", "multi_packet", "file_uri", "absolute_path", "metadata", "empty_metadata_after_nonempty", "set_rejected",
      "fault_fired", "fault_open", "fault_flock", "fault_pwrite", "fault_persistent", "device_used_after_fault", "failed_append_reported",
      "close_while_running", "close_without_start", "start_stop_without_frames", "f32_frames", "odd_image_size", "raw_file_compared",
      "tiff_file_read_back", "restart_without_set", "file_offsets_beyond_4GiB", "second_device_on_running_file_refused",
      "second_device_on_running_file_admitted", "two_devices_open", "two_devices_running", "cross_device_descriptor_reuse_scenario", "uri_in_oversized_buffer", "path_longer_than_1KiB", "descriptor_numbers_above_255", nullptr },
    { "C14 non-trivial: a raw file was compared byte for byte AND (>=2 acquisitions on that device, or a short write inside a multi-frame packet)",
      "C15 non-trivial: a TIFF file was read back AND (N>=2 frames in >=2 packets, or >=2 start/stop cycles on one device, or tiff-json)",
      "C16 non-trivial: an injected fault fired and the device was used again afterwards, or close while running / without start with the "
      "descriptor ledger armed",
      "C13 (integration part) non-trivial: a device that keeps a copy of the properties (raw, tiff-json, trash) was configured with credentials or "
      "metadata, a file:// uri or a second time, and its copy was read back with storage_get",
      nullptr },
};

struct FrameRec
{
    bool big = false;               // ~1 GiB frame kept outside acq.bytes: only its first/last 4 KiB are compared
    std::vector<uint8_t> head4k, tail4k;
    uint32_t w, h;
    SampleType type;
    uint64_t frame_id, hw_id, ts_hw, ts_rt;
    size_t off, nbytes; // within the acquisition's byte stream
};

struct Acq
{
    std::string path;       // what the file/dir is called on disk
    std::string meta;       // configured metadata text ("" = none)
    bool meta_set = false;
    std::vector<uint8_t> bytes; // concatenation of every packet appended with status Ok
    std::vector<FrameRec> frames;
    int packets = 0;
    bool started = false;
    bool all_ok = true;     // start + every append returned Ok
    bool error_fault = false; // an error fault (not merely short writes) fired during it
    bool short_in_multi = false;
    bool interfered = false; // a second device was admitted to the same file: contents are not judged
};

// everything that belongs to one open device
struct Slot
{
    Storage* dev = nullptr;
    int kind = -1;             // 0 raw 1 tiff 2 tiff-json 3 trash
    int acq_on_device = 0;     // completed start/stop cycles on the current device
    bool configured = false;
    bool prev_meta_nonempty = false;
    Acq acq;
    std::vector<uint8_t> pending;      // packet under construction
    std::vector<FrameRec> pending_frames;
    uint64_t next_frame_id = 0;
    bool fault_seen = false;   // a fault fired at some point on this device
};

// The active device's state is the Slot base; a second device can be parked (SWITCH swaps them), so
// two devices of any kinds are open / running at the same time and their descriptors interleave.
struct Ctx : Slot
{
    VhCase c;
    Driver* driver = nullptr;
    Slot parked;
    int parked_open = 0;       // descriptors held by the parked device
    int active_slot = 0;
    bool used_two = false;
    int path_counter = 0;
    std::string dir;           // scratch dir of this case
    bool short_on = false;
    bool restart_without_set = false;
    bool any_fail_token = false; // a FAIL token was seen in this case (its countdown must not be consumed by an intruder)
    std::vector<std::pair<void*, size_t>> big_maps;
    int my_open() const;
};

int
Ctx::my_open() const
{
    return vfd::open_owned_count() - parked_open;
}

Ctx* g = nullptr;
DeviceManager g_dm;
extern long g_op_write_failed, g_op_create_failed;

void
quiet_reporter(int, const char*, int, const char*, const char*)
{
}

size_t
bpp(SampleType t)
{
    switch (t) {
        case SampleType_u8:
        case SampleType_i8: return 1;
        case SampleType_f32: return 4;
        default: return 2;
    }
}

const char* kKindName[4] = { "raw", "tiff", "tiff-json", "trash" };
const int kDeviceId[4] = { BasicDevice_Storage_Raw, BasicDevice_Storage_Tiff, BasicDevice_Storage_SideBySideTiffJson, BasicDevice_Storage_Trash };

// --------------------------------------------------------------------------------- metadata
void
gen_json_value(uint64_t& seed, int depth, std::string& out)
{
    seed = vh_mix64(seed);
    unsigned k = seed % (depth >= 3 ? 5 : 8);
    static const char* strs[] = { "hello", "", "a\\\"quoted\\\"", "100% {sure}", "back\\\\slash", "tab\\there", "\\u00e9\\u4e2d", "}{][", "%s%n%d",
                                  "line\\nbreak" };
    switch (k) {
        case 0: out += std::to_string((int64_t)(seed >> 40) - 8000000); break;
        case 1: out += "\""; out += strs[(seed >> 8) % 10]; out += "\""; break;
        case 2: out += (seed >> 9) & 1 ? "true" : "false"; break;
        case 3: out += "null"; break;
        case 4: out += std::to_string((seed >> 20) % 1000) + "." + std::to_string((seed >> 30) % 100) + "e" + std::to_string((seed >> 12) % 5); break;
        case 5:
        case 6: {
            out += "{";
            int n = (seed >> 16) % 4;
            for (int i = 0; i < n; ++i) {
                if (i)
                    out += ",";
                out += "\"k" + std::to_string(i) + strs[(seed >> (20 + i)) % 10] + "\":";
                gen_json_value(seed, depth + 1, out);
            }
            out += "}";
            break;
        }
        default: {
            out += "[";
            int n = (seed >> 16) % 4;
            for (int i = 0; i < n; ++i) {
                if (i)
                    out += ",";
                gen_json_value(seed, depth + 1, out);
            }
            out += "]";
        }
    }
}

std::string
gen_metadata(uint16_t sel)
{
    uint64_t seed = vh_mix64(0xabcd0000u + sel);
    std::string out = "{";
    int n = sel % 5;
    if ((sel >> 3) % 16 == 0)
        n = 40; // long
    for (int i = 0; i < n; ++i) {
        if (i)
            out += ",";
        out += "\"key" + std::to_string(i) + "\":";
        gen_json_value(seed, 0, out);
    }
    out += "}";
    return out;
}

// --------------------------------------------------------------------------------- helpers
bool
read_file(const std::string& p, std::vector<uint8_t>& out)
{
    FILE* f = fopen(p.c_str(), "rb");
    if (!f)
        return false;
    out.clear();
    uint8_t buf[65536];
    size_t n;
    while ((n = fread(buf, 1, sizeof buf, f)) > 0)
        out.insert(out.end(), buf, buf + n);
    fclose(f);
    return true;
}

void
rm_rf(const std::string& p)
{
    struct stat st;
    if (lstat(p.c_str(), &st) != 0)
        return;
    if (S_ISDIR(st.st_mode)) {
        if (DIR* d = opendir(p.c_str())) {
            while (dirent* e = readdir(d)) {
                if (!strcmp(e->d_name, ".") || !strcmp(e->d_name, ".."))
                    continue;
                rm_rf(p + "/" + e->d_name);
            }
            closedir(d);
        }
        rmdir(p.c_str());
    } else
        unlink(p.c_str());
}

void
op_begin()
{
    vfd::begin_op();
    g_op_write_failed = 0;
    g_op_create_failed = 0;
}

// vfd misuse / runaway after a device call -> C16
bool
check_vfd(Ctx& x, const char* where)
{
    if (x.c.ended)
        return true;
    if (vfd::violation()) {
        // soft in runs that decide another property: the wrong descriptor use is C16's, what it does to the
        // files is what the C14 / C15 oracles are there to see
        bool ended = x.c.fail_soft("C16", "descriptor-not-owned", vfd::violation_kind(), "%s (%s): %s", where, x.kind >= 0 ? kKindName[x.kind] : "?", vfd::violation());
        vfd::clear_violation();
        if (ended)
            return true;
    }
    if (vfd::stats().runaway)
        return x.c.fail("C16", "runaway", x.kind >= 0 ? kKindName[x.kind] : "?", "%s (%s): more than %ld OS-level file calls inside one device call (unbounded recursion or write loop)",
                        where, kKindName[x.kind], vfd::op_call_bound());
    return false;
}

void
note_faults(Ctx& x)
{
    const vfd::Stats& s = vfd::stats();
    long fired = s.op_faults_fired[0] + s.op_faults_fired[1] + s.op_faults_fired[2];
    if (fired) {
        x.c.cls(CL_FAULT_FIRED);
        if (s.op_faults_fired[vfd::C_OPEN])
            x.c.cls(CL_FAULT_OPEN);
        if (s.op_faults_fired[vfd::C_FLOCK])
            x.c.cls(CL_FAULT_FLOCK);
        if (s.op_faults_fired[vfd::C_PWRITE])
            x.c.cls(CL_FAULT_PWRITE);
        x.fault_seen = true;
        x.acq.error_fault = true;
    }
    if (g_op_write_failed || g_op_create_failed)
        x.acq.error_fault = true; // the platform layer reported a failure to the device
}

// --------------------------------------------------------------------------------- operations
void
do_open(Ctx& x, int kind)
{
    DeviceIdentifier id;
    memset(&id, 0, sizeof id);
    id.kind = DeviceKind_Storage;
    id.device_id = (uint8_t)kDeviceId[kind];
    x.kind = kind;
    x.c.cls(CL_RAW + kind);
    x.c.trace("OPEN %s", kKindName[kind]);
    op_begin();
    x.dev = storage_open(&g_dm, &id);
    if (!x.dev) {
        x.c.fail("C16", "open-failed", kKindName[kind], "storage_open(%s) returned NULL", kKindName[kind]);
        return;
    }
    x.acq_on_device = 0;
    x.configured = false;
    x.fault_seen = false;
    x.prev_meta_nonempty = false;
    x.acq = Acq();
    check_vfd(x, "open");
}

void
do_set(Ctx& x, unsigned spelling, uint16_t meta_sel, uint16_t scale_sel)
{
    if (!x.dev || storage_get_state(x.dev) == DeviceState_Running)
        return;
    Acq a;
    char name[64];
    static const char* ext[4] = { ".raw", ".tif", ".dir", ".bin" };
    // names of different lengths (a shorter path after a longer one), sometimes handed over in a buffer
    // that is larger than the string (zero or junk after the terminator): both legal for struct String
    unsigned extra = (scale_sel >> 8) % 12;
    snprintf(name, sizeof name, "acq%d%.*s%s", x.path_counter++, (int)extra, "qwertyuiopas", ext[x.kind]);
    unsigned pad = ((scale_sel >> 12) & 1) ? 1 + (scale_sel >> 13) * 5 : 0;
    bool junk = pad && ((meta_sel >> 9) & 1);
    bool absolute = spelling & 1, file_uri = spelling & 2;
    // sometimes far down a directory tree, so that the path (and every log message that names it) is
    // longer than 1 KiB -- legal (PATH_MAX is 4096) and never done by the tests
    std::string sub;
    if ((meta_sel >> 3) % 11 == 0) {
        std::string walk = x.dir;
        for (int lvl = 0; lvl < 6; ++lvl) {
            std::string comp(180 + lvl, (char)('a' + lvl));
            walk += "/" + comp;
            mkdir(walk.c_str(), 0755);
            sub += comp + "/";
        }
        x.c.cls(CL_LONG_PATH);
    }
    std::string rel = sub + name;
    a.path = x.dir + "/" + rel;
    std::string uri = absolute ? a.path : rel;
    if (file_uri) {
        uri = "file://" + uri;
        x.c.cls(CL_FILE_URI);
    }
    if (absolute)
        x.c.cls(CL_ABS_PATH);
    std::vector<char> ubuf(uri.begin(), uri.end());
    ubuf.push_back(0);
    for (unsigned k = 0; k < pad; ++k)
        ubuf.push_back(junk ? (char)('A' + k % 26) : 0);
    if (pad)
        x.c.cls(CL_URI_OVERSIZED_BUFFER);
    unsigned mm = meta_sel % 8;
    StorageProperties props;
    memset(&props, 0, sizeof props);
    PixelScale sc = { (double)(scale_sel % 7), (double)((scale_sel / 7) % 11) * 0.5 };
    const char* mdesc;
    if (mm == 0) {
        // metadata pointer NULL (zeroed properties + uri)
        storage_properties_set_uri(&props, ubuf.data(), ubuf.size());
        props.pixel_scale_um = sc;
        mdesc = "none(NULL)";
    } else if (mm == 1) {
        storage_properties_init(&props, 0, ubuf.data(), ubuf.size(), nullptr, 0, sc, 0); // metadata becomes ""
        mdesc = "none(\"\")";
    } else {
        a.meta = gen_metadata(meta_sel / 8);
        a.meta_set = true;
        storage_properties_init(&props, 0, ubuf.data(), ubuf.size(), a.meta.c_str(), a.meta.size() + 1, sc, 0);
        mdesc = a.meta.c_str();
        x.c.cls(CL_METADATA);
    }
    // credentials (kept by the devices that copy the properties; never used for file storage)
    std::string key, secret;
    if ((meta_sel >> 10) % 3 == 0) {
        key = "AKIA" + std::to_string(meta_sel * 7919u);
        secret = std::string(1 + (meta_sel >> 12) * 3, 's') + std::to_string(scale_sel);
        storage_properties_set_access_key_and_secret(&props, key.c_str(), key.size() + 1, secret.c_str(), secret.size() + 1);
    }
    x.c.trace("SET uri=%s%s scale=(%g,%g) metadata=%.80s%s", uri.c_str(), pad ? (junk ? " [in a larger buffer, junk after the terminator]" : " [in a larger, zero-padded buffer]") : "", sc.x, sc.y, mdesc,
              strlen(mdesc) > 80 ? "..." : "");
    op_begin();
    DeviceStatusCode r = storage_set(x.dev, &props);
    storage_properties_destroy(&props);
    note_faults(x);
    if (check_vfd(x, "set"))
        return;
    if (r != Device_Ok) {
        x.c.cls(CL_SET_REJECTED);
        x.c.trace("    -> rejected (state %s)", device_state_as_string(storage_get_state(x.dev)));
        x.configured = false;
        return;
    }
    // C13, integration part: the device's own copy of the properties equals what was configured, field by
    // field (raw, tiff-json and trash copy the properties with storage_properties_copy; raw and tiff-json strip file://)
    if (x.kind != 1) {
        StorageProperties got;
        memset(&got, 0, sizeof got);
        if (storage_get(x.dev, &got) == Device_Ok) {
            auto cs = [](const String& st) { return std::string(st.str && st.nbytes ? st.str : ""); };
            std::string want_uri = x.kind == 3 ? uri : absolute ? a.path : rel; // (trash keeps the uri as given)
            struct
            {
                const char* field;
                std::string got, want;
            } f[4] = { { "uri", cs(got.uri), want_uri },
                       { "external_metadata_json", cs(got.external_metadata_json), a.meta_set ? a.meta : std::string() },
                       { "access_key_id", cs(got.access_key_id), key },
                       { "secret_access_key", cs(got.secret_access_key), secret } };
            for (auto& q : f)
                if (q.got != q.want && !x.c.ended) {
                    if (x.c.fail_soft("C13", "device-copy", q.field, "%s: after set, the device's copy of %s is \"%.60s\", configured was \"%.60s\"", kKindName[x.kind], q.field,
                                      q.got.c_str(), q.want.c_str()))
                        return;
                    break;
                }
            if (!x.c.ended && (got.pixel_scale_um.x != sc.x || got.pixel_scale_um.y != sc.y))
                if (x.c.fail_soft("C13", "device-copy", "pixel_scale_um", "%s: after set, the device's copy of the pixel scale is (%g,%g), configured was (%g,%g)", kKindName[x.kind],
                                  got.pixel_scale_um.x, got.pixel_scale_um.y, sc.x, sc.y))
                    return;
            if (!key.empty() || a.meta_set || file_uri || x.acq_on_device >= 1)
                x.c.nontrivial(3);
        }
    }
    if (!a.meta_set && x.prev_meta_nonempty)
        x.c.cls(CL_METADATA_EMPTY_AFTER_NONEMPTY);
    x.prev_meta_nonempty = a.meta_set;
    x.configured = true;
    x.acq = a;
}

void
do_start(Ctx& x)
{
    if (!x.dev || !x.configured || storage_get_state(x.dev) != DeviceState_Armed || x.acq.started)
        return;
    x.c.trace("START");
    op_begin();
    vfd::set_op_call_bound(1000 + 6 * (long)x.acq.meta.size());
    DeviceStatusCode r = storage_start(x.dev);
    note_faults(x);
    if (check_vfd(x, "start"))
        return;
    if ((g_op_write_failed || g_op_create_failed) && (r == Device_Ok || storage_get_state(x.dev) == DeviceState_Running)) {
        x.c.fail("C16", "start-failure-not-reported", kKindName[x.kind],
                 "%s: creating or writing the file failed during start (%ld create, %ld write failures) but start returned %s and the device state is %s",
                 kKindName[x.kind], g_op_create_failed, g_op_write_failed, r == Device_Ok ? "Ok" : "Err", device_state_as_string(storage_get_state(x.dev)));
        return;
    }
    if (r != Device_Ok) {
        x.c.trace("    -> failed (state %s)", device_state_as_string(storage_get_state(x.dev)));
        x.acq.all_ok = false;
        x.configured = false; // a new set is needed (fresh path)
        return;
    }
    x.acq.started = true;
    x.next_frame_id = 0;
    if (x.fault_seen)
        x.c.cls(CL_USED_AFTER_FAULT);
}

void
add_frame(Ctx& x, unsigned tsel, uint16_t shape_sel, uint16_t ids_sel)
{
    static const SampleType types[8] = { SampleType_u8, SampleType_u16, SampleType_i8, SampleType_i16, SampleType_f32, SampleType_u10, SampleType_u12, SampleType_u14 };
    SampleType ty = types[tsel % 8];
    uint32_t w = 1 + (shape_sel & 0xff) % 33, h = 1 + (shape_sel >> 8) % 17;
    if ((shape_sel & 0xff) == 249) {
        // one side of 65536 pixels or more (still a small image)
        static const uint32_t big[4] = { 65536, 70000, 65537, 131072 };
        if ((shape_sel >> 8) & 1) {
            w = big[(shape_sel >> 9) & 3];
            h = 1 + (shape_sel >> 11) % 2;
        } else {
            h = big[(shape_sel >> 9) & 3];
            w = 1 + (shape_sel >> 11) % 3;
        }
    } else if ((shape_sel & 0xff) >= 250) {
        w = 100 + shape_sel % 157;
        h = 50 + (shape_sel >> 8) % 77;
    }
    size_t img = (size_t)w * h * bpp(ty);
    size_t nb = 8 * ((sizeof(VideoFrame) + img + 7) / 8);
    size_t off = x.pending.size();
    x.pending.resize(off + nb, 0xEE); // padding bytes are 0xEE: not judged, only carried
    VideoFrame* f = (VideoFrame*)(x.pending.data() + off);
    memset(f, 0, sizeof *f);
    f->bytes_of_frame = nb;
    f->shape.dims.channels = 1;
    f->shape.dims.width = w;
    f->shape.dims.height = h;
    f->shape.dims.planes = 1;
    f->shape.strides.channels = 1;
    f->shape.strides.width = 1;
    f->shape.strides.height = w;
    f->shape.strides.planes = (int64_t)w * h;
    f->shape.type = ty;
    uint64_t s = vh_mix64(0xf00d0000u + ids_sel + (uint64_t)x.next_frame_id * 65537);
    f->frame_id = x.next_frame_id++;
    f->hardware_frame_id = f->frame_id + (s % 5);
    f->timestamps.hardware = s >> 11;
    f->timestamps.acq_thread = (s >> 7) ^ 0x123456789ull;
    if (ids_sel % 16 == 15) { // extreme values
        f->hardware_frame_id = ~0ull - (s & 0xff);
        f->timestamps.hardware = ~0ull;
    }
    uint8_t* px = x.pending.data() + off + sizeof(VideoFrame);
    for (size_t i = 0; i < img; ++i)
        px[i] = (uint8_t)(vh_mix64(s + i) >> 13);
    FrameRec r;
    r.w = w;
    r.h = h;
    r.type = ty;
    r.frame_id = f->frame_id;
    r.hw_id = f->hardware_frame_id;
    r.ts_hw = f->timestamps.hardware;
    r.ts_rt = f->timestamps.acq_thread;
    r.off = off;
    r.nbytes = nb;
    x.pending_frames.push_back(r);
    if (ty == SampleType_f32)
        x.c.cls(CL_F32);
    if (img % 8)
        x.c.cls(CL_ODD_SIZE);
    x.c.trace("FRAME %ux%u %s id=%llu hw=%llu (%zu bytes)", w, h, sample_type_as_string(ty), (unsigned long long)f->frame_id,
              (unsigned long long)f->hardware_frame_id, nb);
}

void
do_append(Ctx& x)
{
    if (!x.dev || x.pending.empty())
        return;
    if (!x.acq.started || storage_get_state(x.dev) != DeviceState_Running) {
        x.pending.clear();
        x.pending_frames.clear();
        return;
    }
    // exact-size heap copy: an over-read by the device is an AddressSanitizer report
    uint8_t* pkt = (uint8_t*)malloc(x.pending.size());
    memcpy(pkt, x.pending.data(), x.pending.size());
    x.c.trace("APPEND packet of %zu frame(s), %zu bytes", x.pending_frames.size(), x.pending.size());
    op_begin();
    // bound on OS calls inside this append: generous for 1-byte short writes with zero-length
    // returns in between, far below what unbounded recursion produces
    vfd::set_op_call_bound(2000 + 6 * (long)x.pending.size() + (long)x.pending_frames.size() * 6 * (long)(800 + x.acq.meta.size()));
    long shorts_before = vfd::stats().short_writes;
    DeviceStatusCode r = storage_append(x.dev, (const VideoFrame*)pkt, (const VideoFrame*)(pkt + x.pending.size()));
    free(pkt);
    note_faults(x);
    const vfd::Stats& s = vfd::stats();
    bool os_failed = g_op_write_failed > 0;
    if (check_vfd(x, "append"))
        return;
    DeviceState st = storage_get_state(x.dev);
    if (os_failed) {
        if (r == Device_Ok || st == DeviceState_Running) {
            // (soft in other properties' runs: a packet reported Ok that did not reach the file is C14's / C15's to see)
            if (x.c.fail_soft("C16", "write-failure-not-reported", kKindName[x.kind],
                              "%s: %ld file write(s) failed during append (%ld pwrite errors, longest zero-length run %ld) but append returned %s and the device state is %s",
                              kKindName[x.kind], g_op_write_failed, s.op_pwrite_errors, s.op_zero_streak_max, r == Device_Ok ? "Ok" : "Err", device_state_as_string(st)))
                return;
        } else
            x.c.cls(CL_APPEND_FAILED_REPORTED);
    }
    if (r == Device_Ok) {
        size_t base = x.acq.bytes.size();
        x.acq.bytes.insert(x.acq.bytes.end(), x.pending.begin(), x.pending.end());
        for (FrameRec fr : x.pending_frames) {
            fr.off += base;
            x.acq.frames.push_back(fr);
        }
        x.acq.packets++;
        if (x.acq.packets >= 2)
            x.c.cls(CL_MULTI_PACKET);
        if (s.short_writes > shorts_before) {
            x.c.cls(CL_SHORT);
            if (x.pending_frames.size() >= 2) {
                x.c.cls(CL_SHORT_IN_MULTIFRAME_PACKET);
                x.acq.short_in_multi = true;
            }
        }
        if (s.zero_writes)
            x.c.cls(CL_ZERO_WRITE);
    } else {
        x.c.trace("    -> append failed (state %s)", device_state_as_string(st));
        x.acq.all_ok = false;
        x.acq.started = false; // the device left the running state on its own
        x.configured = false;
    }
    x.pending.clear();
    x.pending_frames.clear();
}

void
check_raw(Ctx& x)
{
    std::vector<uint8_t> got;
    if (!read_file(x.acq.path, got)) {
        x.c.fail("C14", "file-missing", "raw", "raw file %s does not exist after the acquisition", x.acq.path.c_str());
        return;
    }
    x.c.cls(CL_RAW_CHECKED);
    if (x.acq_on_device >= 1 || x.acq.short_in_multi)
        x.c.nontrivial(0);
    const std::vector<uint8_t>& want = x.acq.bytes;
    if (got.size() != want.size()) {
        // find the first difference for the message
        size_t k = 0;
        while (k < got.size() && k < want.size() && got[k] == want[k])
            ++k;
        x.c.fail("C14", "file-size", got.size() > want.size() ? "longer" : "shorter",
                 "raw file has %zu bytes, the %zu appended frames make %zu bytes (first difference at byte %zu; acquisition #%d on this device)",
                 got.size(), x.acq.frames.size(), want.size(), k, x.acq_on_device + 1);
        return;
    }
    for (size_t k = 0; k < got.size(); ++k)
        if (got[k] != want[k]) {
            x.c.fail("C14", "file-content", "differs", "raw file differs from the appended bytes at offset %zu (file %02x, appended %02x)", k, got[k], want[k]);
            return;
        }
}

void
check_description(Ctx& x, const tr::Dir& d, const FrameRec& fr, size_t i, bool expect_meta)
{
    if (!d.has_desc) {
        x.c.fail("C15", "description-missing", "tag", "directory %zu has no ImageDescription", i);
        return;
    }
    tr::JVal v;
    std::string err;
    if (!tr::parse_json(d.desc, v, err) || v.t != tr::JVal::Obj) {
        x.c.fail("C15", "description-not-json", "parse", "ImageDescription of directory %zu is not a JSON object (%s): %.120s", i, err.c_str(), d.desc.c_str());
        return;
    }
    auto num = [&](const tr::JVal* o, const char* k, uint64_t want) -> bool {
        const tr::JVal* q = o ? o->get(k) : nullptr;
        if (!q || q->t != tr::JVal::Num || q->num != std::to_string(want)) {
            x.c.fail("C15", "description-field", k, "directory %zu: description field %s is %s, the frame has %llu", i, k, q ? q->num.c_str() : "(absent)",
                     (unsigned long long)want);
            return false;
        }
        return true;
    };
    if (!num(&v, "frame_id", fr.frame_id) || !num(&v, "hardware_frame_id", fr.hw_id))
        return;
    const tr::JVal* ts = v.get("timestamps");
    if (!ts || ts->t != tr::JVal::Obj) {
        x.c.fail("C15", "description-field", "timestamps", "directory %zu: description has no timestamps object", i);
        return;
    }
    if (!num(ts, "runtime", fr.ts_rt) || !num(ts, "hardware", fr.ts_hw))
        return;
    if (x.kind == 1 && i == 0) {
        const tr::JVal* m = v.get("metadata");
        if (expect_meta) {
            tr::JVal want;
            std::string e2;
            tr::parse_json(x.acq.meta, want, e2);
            if (!m || !(*m == want)) {
                x.c.fail("C15", "metadata", m ? "differs" : "absent", "first directory: metadata in the description %s the configured metadata %.100s", m ? "differs from" : "is absent; expected",
                         x.acq.meta.c_str());
                return;
            }
        } else if (m) {
            // no metadata configured for this acquisition: an empty object is as good as none
            if (!(m->t == tr::JVal::Obj && m->ok.empty())) {
                x.c.fail("C15", "metadata", "stale", "first directory carries metadata although none was configured for this acquisition: %.100s", d.desc.c_str());
                return;
            }
        }
    }
}

void
check_tiff(Ctx& x)
{
    std::string file = x.kind == 1 ? x.acq.path : x.acq.path + "/data.tif";
    tr::Src f;
    f.fd = ::open(file.c_str(), O_RDONLY);
    if (f.fd < 0) {
        x.c.fail("C15", "file-missing", kKindName[x.kind], "%s does not exist after the acquisition", file.c_str());
        return;
    }
    struct stat stt;
    fstat(f.fd, &stt);
    f.n = (uint64_t)stt.st_size;
    struct Closer
    {
        int fd;
        ~Closer() { ::close(fd); }
    } closer{ f.fd };
    x.c.cls(CL_TIFF_CHECKED);
    size_t N = x.acq.frames.size();
    if ((N >= 2 && x.acq.packets >= 2) || x.acq_on_device >= 1 || x.kind == 2)
        x.c.nontrivial(1);
    tr::Tiff t;
    if (!tr::read_tiff(f, t)) {
        x.c.fail("C15", "structure", t.err_kind.c_str(), "%s (%zu frames appended, acquisition #%d on this device): %s", kKindName[x.kind], N, x.acq_on_device + 1,
                 t.err.c_str());
        return;
    }
    if (t.dirs.size() != N) {
        x.c.fail("C15", "directory-count", t.dirs.size() > N ? "more" : "fewer", "%s: directory chain has %zu entries, %zu frames were appended", kKindName[x.kind],
                 t.dirs.size(), N);
        return;
    }
    for (size_t i = 0; i < N && !x.c.ended; ++i) {
        const tr::Dir& d = t.dirs[i];
        const FrameRec& fr = x.acq.frames[i];
        for (int k = 0; k < 6; ++k)
            if (!d.has[k] && k != 3) {
                static const char* nm[6] = { "ImageWidth", "ImageLength", "BitsPerSample", "SampleFormat", "StripOffsets", "StripByteCounts" };
                x.c.fail("C15", "tag-missing", nm[k], "directory %zu lacks %s", i, nm[k]);
                return;
            }
        uint64_t fmt = fr.type == SampleType_f32 ? 3 : (fr.type == SampleType_i8 || fr.type == SampleType_i16) ? 2 : 1;
        if (d.width != fr.w || d.height != fr.h || d.bits != 8 * bpp(fr.type) || d.fmt != fmt) {
            x.c.fail("C15", "shape", "mismatch", "directory %zu says %llux%llu, %llu bits, format %llu; frame %zu was %ux%u, %zu bits, format %llu", i,
                     (unsigned long long)d.width, (unsigned long long)d.height, (unsigned long long)d.bits, (unsigned long long)d.fmt, i, fr.w, fr.h, 8 * bpp(fr.type),
                     (unsigned long long)fmt);
            return;
        }
        size_t img = (size_t)fr.w * fr.h * bpp(fr.type);
        if (d.strip_len < img) {
            x.c.fail("C15", "strip", "short", "directory %zu: strip has %llu bytes, the image needs %zu", i, (unsigned long long)d.strip_len, img);
            return;
        }
        if (fr.big) {
            std::vector<uint8_t> got(4096);
            if (!f.read(d.strip_off, got.data(), 4096) || memcmp(got.data(), fr.head4k.data(), 4096) != 0) {
                x.c.fail("C15", "pixels", "differ-big-head", "directory %zu: the first 4 KiB of the strip (offset %llu) differ from the frame's pixels", i,
                         (unsigned long long)d.strip_off);
                return;
            }
            if (!f.read(d.strip_off + img - 4096, got.data(), 4096) || memcmp(got.data(), fr.tail4k.data(), 4096) != 0) {
                x.c.fail("C15", "pixels", "differ-big-tail", "directory %zu: the last 4 KiB of the strip differ from the frame's pixels", i);
                return;
            }
        } else {
            const uint8_t* want = x.acq.bytes.data() + fr.off + sizeof(VideoFrame);
            std::vector<uint8_t> got(img);
            f.read(d.strip_off, got.data(), img);
            if (memcmp(got.data(), want, img) != 0) {
                size_t k = 0;
                while (got[k] == want[k])
                    ++k;
                x.c.fail("C15", "pixels", "differ", "directory %zu: strip differs from the frame's pixel bytes at byte %zu", i, k);
                return;
            }
        }
        check_description(x, d, fr, i, x.acq.meta_set);
    }
    if (x.c.ended)
        return;
    if (x.kind == 2) {
        std::vector<uint8_t> mj;
        bool have = read_file(x.acq.path + "/metadata.json", mj);
        if (x.acq.meta_set) {
            if (!have || std::string(mj.begin(), mj.end()) != x.acq.meta)
                x.c.fail("C15", "metadata-json", have ? "differs" : "absent", "tiff-json: metadata.json %s (configured %zu bytes, file has %zu)", have ? "differs from the configured metadata" : "is missing",
                         x.acq.meta.size(), mj.size());
        }
    }
}

void
do_stop(Ctx& x)
{
    if (!x.dev || !x.acq.started)
        return;
    do_append(x);
    if (x.c.ended || !x.acq.started)
        return;
    x.c.trace("STOP");
    vfd::set_op_call_bound(400);
    if (x.acq.frames.empty())
        x.c.cls(CL_START_STOP_NO_FRAMES);
    op_begin();
    storage_stop(x.dev);
    note_faults(x);
    if (check_vfd(x, "stop"))
        return;
    x.acq.started = false;
    // a completed acquisition: judge the file
    // tiff writes at stop as well, so an injected fault can legitimately leave the file incomplete although every
    // append returned Ok; the raw device writes in append only: if start and every append returned Ok the file
    // must hold every byte, whatever the OS calls did in between
    bool judge = x.acq.all_ok && (!x.acq.error_fault || x.kind == 0) && !x.acq.interfered;
    if (judge && x.kind == 0)
        check_raw(x);
    else if (judge && (x.kind == 1 || x.kind == 2) && !x.acq.frames.empty())
        check_tiff(x);
    if (x.c.ended)
        return;
    if (x.my_open() != 0) {
        x.c.fail("C16", "descriptor-left-open-after-stop", kKindName[x.kind], "%s: %d descriptor(s) opened by the device are still open after stop returned (e.g. fd %d)%s",
                 kKindName[x.kind], x.my_open(), vfd::open_owned().empty() ? -1 : vfd::open_owned()[0], x.parked_open ? "  [a second device holds descriptors of its own; they are not counted]" : "");
        return;
    }
    x.acq_on_device++;
    if (x.acq_on_device >= 2)
        x.c.cls(CL_TWO_ACQ_ONE_DEVICE);
    if (x.restart_without_set) {
        // The runtime restarts a stream without configuring it again (repeat-start).  The
        // acquisition then goes to the same path: the harness moves the old file away first (the
        // devices do not truncate, and the statement speaks about acquisitions to other paths),
        // so the new file is fresh and must hold exactly the new frames.
        Acq next;
        next.path = x.acq.path;
        next.meta = x.acq.meta;
        next.meta_set = x.acq.meta_set;
        rm_rf(x.acq.path);
        x.acq = next;
        x.configured = true;
        x.c.cls(CL_RESTART_WITHOUT_SET);
        x.c.trace("    (old output removed; the next start reuses the configuration)");
        return;
    }
    x.configured = false; // next acquisition needs a fresh path
    x.acq = Acq();
}

void
do_close(Ctx& x)
{
    if (!x.dev)
        return;
    bool running = storage_get_state(x.dev) == DeviceState_Running;
    if (running) {
        x.c.cls(CL_CLOSE_WHILE_RUNNING);
        x.c.nontrivial(2);
    }
    if (x.acq_on_device == 0 && !x.acq.started) {
        x.c.cls(CL_CLOSE_WITHOUT_START);
        x.c.nontrivial(2);
    }
    if (x.fault_seen)
        x.c.nontrivial(2);
    x.c.trace("CLOSE%s", running ? "   (while running)" : "");
    op_begin();
    long closes_before = vfd::stats().closes;
    storage_close(x.dev);
    x.dev = nullptr;
    note_faults(x);
    if (check_vfd(x, "close"))
        return;
    (void)closes_before;
    if (x.my_open() != 0) {
        // soft in runs that decide another property: with two devices a wrong close shows here first, and
        // the damage to the other device's file is what C14 / C15 runs are there to see
        bool ended = x.c.fail_soft("C16", "descriptor-leak", kKindName[x.kind], "%s: %d descriptor(s) opened by the device are still open after the device was closed (e.g. fd %d)%s",
                 kKindName[x.kind], x.my_open(), vfd::open_owned().empty() ? -1 : vfd::open_owned()[0], x.parked_open ? "  [a second device holds descriptors of its own; they are not counted]" : "");
        if (ended)
            return;
        x.parked_open = vfd::open_owned_count(); // the closed device holds nothing by definition
    }
    x.pending.clear();
    x.pending_frames.clear();
    x.acq = Acq();
    x.configured = false;
}

// Parks the active device (open, configured or running as it is) and activates the other one.
void
do_switch(Ctx& x)
{
    int mine = x.my_open();
    Slot tmp = static_cast<Slot&>(x);
    static_cast<Slot&>(x) = x.parked;
    x.parked = tmp;
    x.parked_open = mine;
    x.active_slot ^= 1;
    x.c.trace("SWITCH -> device slot %d (%s%s); parked: %s%s holding %d descriptor(s)", x.active_slot, x.dev ? kKindName[x.kind] : "none",
              x.dev && x.acq.started ? ", running" : "", x.parked.dev ? kKindName[x.parked.kind] : "none", x.parked.dev && x.parked.acq.started ? ", running" : "",
              x.parked_open);
    if (x.dev && x.parked.dev) {
        x.c.cls(CL_TWO_DEVICES);
        if (x.acq.started && x.parked.acq.started)
            x.c.cls(CL_TWO_DEVICES_RUNNING);
    }
}

// Scenario macro (descriptor numbers reused across devices): device X meets a write failure in an
// append; device Y is started (the OS hands out the lowest free descriptor number, possibly the one X
// just gave up); X is closed; device Z is opened and started; Y and Z go on appending and are stopped.
// Every file is judged as usual, so a device that closes or writes a number it no longer owns shows
// up as frames missing from one file / foreign frames in another, and in the descriptor ledger.
void
do_cross(Ctx& x, const VhTok& t)
{
    if (x.dev || x.parked.dev)
        return; // only from a clean slate
    static const int kinds[4] = { 0, 0, 1, 2 };
    int kx = kinds[t.a % 4], ky = kinds[(t.a / 4) % 4], kz = kinds[(t.a / 16) % 4];
    uint64_t h = vh_mix64(((uint64_t)t.b << 16) | t.c);
    x.c.trace("CROSS scenario: X=%s fails an append, Y=%s starts, X is closed, Z=%s starts, Y and Z continue", kKindName[kx], kKindName[ky], kKindName[kz]);
    x.c.cls(CL_CROSS);
    auto frames = [&](int nf, uint64_t salt) {
        for (int i = 0; i < nf && !x.c.ended && x.acq.started; ++i) {
            uint64_t s2 = vh_mix64(h + salt * 977 + i);
            add_frame(x, (unsigned)(s2 % 8), (uint16_t)(s2 >> 8), (uint16_t)(s2 >> 24));
        }
    };
    // X
    do_open(x, kx);
    if (x.c.ended)
        return;
    do_set(x, (unsigned)(h & 3), 0, 9);
    do_start(x);
    if (x.c.ended || !x.acq.started)
        return;
    frames(1 + (int)((h >> 4) % 2), 1);
    if ((h >> 6) & 1)
        do_append(x); // a successful packet first
    if (x.c.ended || !x.acq.started)
        return;
    frames(1, 2);
    {
        vfd::Fault f;
        static const int errs[3] = { EIO, ENOSPC, EFBIG };
        f.call = vfd::C_PWRITE;
        f.persistent = false;
        f.err = errs[(h >> 8) % 3];
        f.at = (long)((h >> 10) % 3);
        vfd::arm(f);
        x.any_fail_token = true;
        x.c.trace("FAIL pwrite #%ld from now, errno=%d, transient", f.at, f.err);
    }
    do_append(x);
    vfd::clear_faults();
    if (x.c.ended)
        return;
    bool x_failed = !x.acq.started;
    // Y
    do_switch(x);
    do_open(x, ky);
    if (x.c.ended)
        return;
    do_set(x, (unsigned)((h >> 12) & 3), 0, 9);
    do_start(x);
    frames(1 + (int)((h >> 14) % 2), 3);
    do_append(x);
    if (x.c.ended)
        return;
    // X is closed (or, half of the time when it did not fail, stopped and closed)
    do_switch(x);
    if (x.acq.started)
        do_stop(x);
    if (!x.c.ended)
        do_close(x);
    if (x.c.ended)
        return;
    if (x_failed)
        x.c.nontrivial(2);
    // Z in X's slot
    do_open(x, kz);
    if (x.c.ended)
        return;
    do_set(x, (unsigned)((h >> 16) & 3), 0, 9);
    do_start(x);
    frames(1, 4);
    do_append(x);
    if (x.c.ended)
        return;
    // Y goes on
    do_switch(x);
    frames(1 + (int)((h >> 18) % 2), 5);
    do_append(x);
    if (!x.c.ended && x.acq.started)
        do_stop(x);
    if (x.c.ended)
        return;
    // Z goes on
    do_switch(x);
    frames(1, 6);
    do_append(x);
    if (!x.c.ended && x.acq.started)
        do_stop(x);
}

// While the device is running, a second device (same kind, or the other single-file kind) is
// configured with the running device's path and started -- two streams given one URI, or a second
// program.  file_create takes an exclusive lock, so the start is refused; whatever it does on the way
// must leave the running acquisition's file alone: the usual comparison at stop is the oracle.
void
do_intruder(Ctx& x, const VhTok& t)
{
    if (!x.dev || !x.acq.started || x.kind == 3 || x.any_fail_token || storage_get_state(x.dev) != DeviceState_Running)
        return;
    do_append(x); // what was appended so far is on disk
    if (x.c.ended || !x.acq.started)
        return;
    int k2 = x.kind == 2 ? 2 : ((t.a & 1) ? x.kind : 1 - x.kind);
    DeviceIdentifier id;
    memset(&id, 0, sizeof id);
    id.kind = DeviceKind_Storage;
    id.device_id = (uint8_t)kDeviceId[k2];
    std::string uri = (t.a & 2) ? "file://" + x.acq.path : x.acq.path;
    x.c.trace("INTRUDER %s uri=%s: open, set, start, close", kKindName[k2], uri.c_str());
    op_begin();
    vfd::set_op_call_bound(2000);
    Storage* d2 = storage_open(&g_dm, &id);
    if (!d2)
        return;
    StorageProperties props;
    memset(&props, 0, sizeof props);
    PixelScale sc = { 1, 1 };
    storage_properties_init(&props, 0, uri.c_str(), uri.size() + 1, nullptr, 0, sc, 0);
    DeviceStatusCode rs = storage_set(d2, &props);
    storage_properties_destroy(&props);
    DeviceStatusCode r = rs == Device_Ok ? storage_start(d2) : Device_Err;
    bool admitted = r == Device_Ok && storage_get_state(d2) == DeviceState_Running;
    x.c.trace("    -> set %s, start %s", rs == Device_Ok ? "ok" : "rejected", admitted ? "ADMITTED" : "refused");
    if (admitted) {
        x.c.cls(CL_INTRUDER_ADMITTED);
        // a raw intruder that is stopped at once has written nothing: the running raw device's file is
        // still judged; a tiff intruder writes its header at start, so the contents are not judged then
        if (!(x.kind == 0 && k2 == 0))
            x.acq.interfered = true;
        storage_stop(d2);
    } else
        x.c.cls(CL_INTRUDER_REFUSED);
    int before = vfd::open_owned_count();
    storage_close(d2);
    (void)before;
    g_op_write_failed = 0;
    g_op_create_failed = 0; // the refused create belongs to the intruder, not to the device under test
    check_vfd(x, "intruder");
}

// A tiff / tiff-json acquisition of nfr frames of ~1 GiB each.  The frames live in untouched
// anonymous mappings (only the header and the first/last 4 KiB of pixels are written), the
// descriptor layer writes them sparsely, and the reader uses pread: a case costs milliseconds but
// the file's structures lie beyond 4 GiB.
void
do_big_acq(Ctx& x, const VhTok& t)
{
    if (x.dev && x.acq.started)
        do_stop(x);
    if (x.c.ended)
        return;
    if (x.dev && x.kind != 1 && x.kind != 2)
        do_close(x);
    if (x.c.ended)
        return;
    if (!x.dev)
        do_open(x, 1 + (t.a & 1));
    if (x.c.ended || !x.dev)
        return;
    do_set(x, (t.a >> 1) & 3, (uint16_t)(2 + 8 * (t.b % 100)), 9);
    if (x.c.ended || !x.configured)
        return;
    do_start(x);
    if (x.c.ended || !x.acq.started)
        return;
    int nfr = 4 + (t.a >> 3) % 3;
    vfd::set_sparse(true);
    vfd::set_short(0, 0, 1);
    for (int i = 0; i < nfr && !x.c.ended && x.acq.started; ++i) {
        uint32_t w = 32768, h = 28000 + (uint32_t)vh_mix64(t.b * 31u + i) % 12000; // 0.92 .. 1.31 GiB, u8
        size_t img = (size_t)w * h;
        size_t nb = 8 * ((sizeof(VideoFrame) + img + 7) / 8);
        void* m = mmap(nullptr, nb, PROT_READ | PROT_WRITE, MAP_PRIVATE | MAP_ANONYMOUS | MAP_NORESERVE, -1, 0);
        if (m == MAP_FAILED)
            break;
        x.big_maps.push_back({ m, nb });
        VideoFrame* f = (VideoFrame*)m;
        f->bytes_of_frame = nb;
        f->shape.dims.channels = 1;
        f->shape.dims.width = w;
        f->shape.dims.height = h;
        f->shape.dims.planes = 1;
        f->shape.strides.channels = 1;
        f->shape.strides.width = 1;
        f->shape.strides.height = w;
        f->shape.strides.planes = (int64_t)w * h;
        f->shape.type = SampleType_u8;
        uint64_t s = vh_mix64(0xb16f0000u + t.b + (uint64_t)i * 65537);
        f->frame_id = x.next_frame_id++;
        f->hardware_frame_id = f->frame_id + 1;
        f->timestamps.hardware = s >> 9;
        f->timestamps.acq_thread = s >> 5;
        FrameRec r;
        r.big = true;
        r.w = w;
        r.h = h;
        r.type = SampleType_u8;
        r.frame_id = f->frame_id;
        r.hw_id = f->hardware_frame_id;
        r.ts_hw = f->timestamps.hardware;
        r.ts_rt = f->timestamps.acq_thread;
        r.off = 0;
        r.nbytes = nb;
        r.head4k.resize(4096);
        r.tail4k.resize(4096);
        for (size_t j = 0; j < 4096; ++j) {
            r.head4k[j] = (uint8_t)(vh_mix64(s + j) >> 11);
            r.tail4k[j] = (uint8_t)(vh_mix64(s + 77777 + j) >> 13);
        }
        memcpy(f->data, r.head4k.data(), 4096);
        memcpy(f->data + img - 4096, r.tail4k.data(), 4096);
        x.c.trace("FRAME %ux%u u8 id=%llu (%zu bytes, sparse)", w, h, (unsigned long long)f->frame_id, nb);
        x.c.trace("APPEND packet of 1 frame(s), %zu bytes", nb);
        op_begin();
        vfd::set_op_call_bound(4000);
        DeviceStatusCode rr = storage_append(x.dev, f, (const VideoFrame*)((const uint8_t*)f + nb));
        note_faults(x);
        if (check_vfd(x, "append"))
            break;
        if (rr != Device_Ok) {
            x.acq.all_ok = false;
            x.acq.started = false;
            x.configured = false;
            break;
        }
        x.acq.frames.push_back(r);
        x.acq.packets++;
        if (x.acq.frames.size() >= 4)
            x.c.cls(CL_BEYOND_4GIB);
    }
    if (!x.c.ended && x.acq.started)
        do_stop(x);
    vfd::set_sparse(false);
    for (auto& mp : x.big_maps)
        munmap(mp.first, mp.second);
    x.big_maps.clear();
}

void
ensure_running(Ctx& x, const VhTok& t)
{
    if (!x.dev) {
        static const int pick[8] = { 0, 1, 2, 0, 1, 2, 3, 0 };
        do_open(x, pick[t.d % 8]);
    }
    if (x.c.ended || !x.dev)
        return;
    if (storage_get_state(x.dev) == DeviceState_Running && x.acq.started)
        return;
    if (!x.configured)
        do_set(x, (t.d >> 3) & 3, (uint16_t)((t.d >> 5) | 2), (uint16_t)(t.d >> 7));
    if (x.c.ended || !x.configured)
        return;
    do_start(x);
}

} // namespace

extern "C" struct Driver*
device_manager_get_driver(const struct DeviceManager*, const struct DeviceIdentifier*)
{
    return g->driver;
}
// basics.driver.c refers to the simulated cameras; they are not part of this harness.
extern "C" struct Camera*
simcam_make_camera(int)
{
    return nullptr;
}
extern "C" enum DeviceStatusCode
simcam_close_camera(struct Camera*)
{
    return Device_Err;
}

// The storage sources are compiled with -Dfile_write=vh_file_write -Dfile_create=vh_file_create:
// the harness sees what the platform layer told the device.
extern "C" int file_write(const struct file* file, uint64_t offset, const uint8_t* beg, const uint8_t* end);
extern "C" int file_create(struct file* file, const char* filename, size_t bytes_of_filename);
namespace {
long g_op_write_failed = 0, g_op_create_failed = 0;
}
extern "C" int
vh_file_write(const struct file* file, uint64_t offset, const uint8_t* beg, const uint8_t* end)
{
    int ok = file_write(file, offset, beg, end);
    if (!ok)
        g_op_write_failed++;
    return ok;
}
extern "C" int
vh_file_create(struct file* file, const char* filename, size_t n)
{
    int ok = file_create(file, filename, n);
    if (!ok)
        g_op_create_failed++;
    return ok;
}

extern "C" const VhSpec*
vh_spec(void)
{
    return &kSpec;
}

extern "C" int
vh_run(const VhTok* tape, size_t n, VhReport* rep)
{
    Ctx* px = new Ctx();
    Ctx& x = *px;
    g = px;
    x.c.begin(rep, &kSpec);
    vfd::reset();
    vfd::set_op_call_bound(400);
    logger_set_reporter(quiet_reporter);
    x.dir = std::string(vh_scratch ? vh_scratch : ".") + "/stor";
    rm_rf(x.dir);
    mkdir(x.dir.c_str(), 0755);
    char oldcwd[4096];
    if (!getcwd(oldcwd, sizeof oldcwd))
        oldcwd[0] = 0;
    if (chdir(x.dir.c_str()) != 0) {
    }
    x.driver = acquire_driver_init_v0(quiet_reporter);
    // in some cases the process already has ~260 descriptors open, so that the devices' files get numbers >= 256
    std::vector<int> dummies;
    if (n && vh_mix64(tape[0].a * 31u + tape[0].kind * 7u + 3) % 6 == 0) {
        // every number below 300 is taken afterwards, in the generating process and in a replay alike: the next
        // descriptor the device opens is 300 wherever the case runs
        for (;;) {
            // (a writable file of this case's own: a write that goes astray succeeds silently, and a lock that goes
            // astray cannot collide with another process, as it would on /dev/null)
            int fd = ::open((x.dir + "/.other-open-file").c_str(), O_RDWR | O_CREAT, 0644);
            if (fd < 0)
                break;
            dummies.push_back(fd);
            if (fd >= 299)
                break;
        }
        x.c.cls(CL_MANY_FDS);
    }

    for (size_t ti = 0; ti < n && !x.c.ended; ++ti) {
        const VhTok& t = tape[ti];
        int kind = t.kind % K_COUNT;
        rep->steps++;
        x.c.mix(kind * 7919u + t.a);
        x.c.mix(((uint64_t)t.b << 32) | ((uint64_t)t.c << 16) | t.d);
        switch (kind) {
            case K_ACQ: {
                if (x.dev && x.acq.started)
                    do_stop(x);
                if (x.c.ended)
                    break;
                if (!x.dev) {
                    static const int pick[8] = { 0, 1, 2, 0, 1, 2, 3, 1 };
                    do_open(x, pick[t.a % 8]);
                }
                if (x.c.ended)
                    break;
                if (!x.configured)
                    do_set(x, (t.a >> 3) & 3, t.d, (uint16_t)(t.d >> 5));
                if (x.c.ended || !x.configured)
                    break;
                do_start(x);
                if (x.c.ended || !x.acq.started)
                    break;
                int nframes = 1 + t.b % 6;
                for (int i = 0; i < nframes && !x.c.ended && x.acq.started; ++i) {
                    uint64_t s = vh_mix64(t.c * 31u + i);
                    add_frame(x, (unsigned)(s % 8), (uint16_t)(s >> 8), (uint16_t)(s >> 24));
                    if ((t.b >> (3 + i)) & 1)
                        do_append(x);
                }
                if (!x.c.ended && x.acq.started) {
                    x.restart_without_set = (t.b >> 13) == 1;
                    do_stop(x);
                    x.restart_without_set = false;
                }
                break;
            }
            case K_OPEN:
                if (!x.dev)
                    do_open(x, t.a % 4);
                break;
            case K_SET:
                if (!x.dev)
                    do_open(x, t.a % 4);
                if (!x.c.ended)
                    do_set(x, (t.a >> 2) & 3, t.b, t.c);
                break;
            case K_START:
                ensure_running(x, t);
                break;
            case K_FRAME:
                ensure_running(x, t);
                if (x.c.ended || !x.acq.started)
                    break;
                add_frame(x, t.a % 8, t.b, t.c);
                if ((t.a >> 3) & 1)
                    do_append(x);
                break;
            case K_APPEND:
                do_append(x);
                break;
            case K_STOP:
                x.restart_without_set = (t.d & 3) == 1;
                do_stop(x);
                x.restart_without_set = false;
                break;
            case K_CLOSE:
                do_close(x);
                break;
            case K_SHORT: {
                static const size_t chunks[8] = { 0, 1, 7, 64, 100, 4096, 13, 0 };
                size_t mc = chunks[t.a % 8];
                int zero_every = (t.b % 4 == 0) ? 2 + (t.b >> 2) % 9 : 0;
                int zero_run = 1 + (t.b >> 6) % 3; // 1..3 (3 in a row = the OS makes no progress)
                if (zero_every && zero_run >= zero_every)
                    zero_run = zero_every - 1;
                vfd::set_short(mc, zero_every, zero_run);
                x.c.trace("SHORT max_chunk=%zu zero_every=%d zero_run=%d", mc, zero_every, zero_run);
                break;
            }
            case K_BIGACQ:
                do_big_acq(x, t);
                break;
            case K_INTRUDER:
                do_intruder(x, t);
                break;
            case K_SWITCH:
                do_switch(x);
                break;
            case K_CROSS:
                do_cross(x, t);
                break;
            case K_FAIL: {
                x.any_fail_token = true;
                vfd::Fault f;
                static const vfd::Call calls[4] = { vfd::C_PWRITE, vfd::C_OPEN, vfd::C_FLOCK, vfd::C_PWRITE };
                static const int errs[4] = { EIO, ENOSPC, EACCES, EINTR };
                f.call = calls[t.a % 4];
                f.persistent = (t.a >> 2) & 1;
                f.err = errs[(t.a >> 3) % 4];
                f.at = t.c ? t.b : t.b % (f.call == vfd::C_PWRITE ? 24 : 4); // c=1: exact index (enumeration)
                vfd::arm(f);
                if (f.persistent)
                    x.c.cls(CL_FAULT_PERSISTENT);
                x.c.trace("FAIL %s #%ld from now, errno=%d, %s", f.call == vfd::C_PWRITE ? "pwrite" : f.call == vfd::C_OPEN ? "open" : "flock", f.at, f.err,
                          f.persistent ? "persistent" : "transient");
                break;
            }
        }
    }

    if (!x.c.ended) {
        x.c.trace("END");
        // finish cleanly: a last stop (judged like any other) and close
        if (x.dev && x.acq.started && (n == 0 || tape[n - 1].kind % K_COUNT != K_FRAME))
            do_stop(x);
        if (!x.c.ended)
            do_close(x);
        if (!x.c.ended && x.parked.dev) {
            do_switch(x);
            if (x.dev && x.acq.started)
                do_stop(x);
            if (!x.c.ended)
                do_close(x);
        }
    }
    x.c.trace("VFD calls: open=%ld flock=%ld pwrite=%ld faults_fired=%ld", vfd::stats().calls[0], vfd::stats().calls[1], vfd::stats().calls[2],
              vfd::stats().faults_fired);
    vfd::clear_faults();
    if (x.driver && x.driver->shutdown)
        x.driver->shutdown(x.driver);
    vfd::close_leftovers();
    for (int fd : dummies)
        ::close(fd);
    if (oldcwd[0] && chdir(oldcwd) != 0) {
    }
    rm_rf(x.dir);
    g = nullptr;
    delete px;
    return rep->verdict;
}
