// tiffread.hpp — independent BigTIFF reader and minimal JSON parser used as the C15 oracle.
// Shares no code with tiff.cpp.
#pragma once
#include <cstdint>
#include <cstring>
#include <unistd.h>
#include <map>
#include <memory>
#include <string>
#include <vector>

namespace tr {

// ---------------------------------------------------------------- JSON
struct JVal
{
    enum T
    {
        Null,
        Bool,
        Num,
        Str,
        Arr,
        Obj
    } t = Null;
    bool b = false;
    std::string num; // textual number (compared as text after normalisation of nothing: generator controls it)
    std::string s;
    std::vector<JVal> a;
    std::vector<std::string> ok; // object keys
    std::vector<JVal> ov;        // object values

    const JVal* get(const std::string& k) const
    {
        for (size_t i = 0; i < ok.size(); ++i)
            if (ok[i] == k)
                return &ov[i];
        return nullptr;
    }
    bool operator==(const JVal& r) const
    {
        if (t != r.t)
            return false;
        switch (t) {
            case Null: return true;
            case Bool: return b == r.b;
            case Num: return num == r.num;
            case Str: return s == r.s;
            case Arr: return a == r.a;
            case Obj: {
                if (ok.size() != r.ok.size())
                    return false;
                for (size_t i = 0; i < ok.size(); ++i) {
                    const JVal* q = r.get(ok[i]);
                    if (!q || !(*q == ov[i]))
                        return false;
                }
                return true;
            }
        }
        return false;
    }
};

struct JParser
{
    const char* p;
    const char* e;
    std::string err;
    void ws()
    {
        while (p < e && (*p == ' ' || *p == '\t' || *p == '\n' || *p == '\r'))
            ++p;
    }
    bool fail(const char* m)
    {
        if (err.empty())
            err = m;
        return false;
    }
    bool str(std::string& out)
    {
        if (p >= e || *p != '"')
            return fail("expected string");
        ++p;
        while (p < e && *p != '"') {
            if ((unsigned char)*p < 0x20)
                return fail("control character in string");
            if (*p == '\\') {
                ++p;
                if (p >= e)
                    return fail("dangling escape");
                switch (*p) {
                    case '"': out += '"'; break;
                    case '\\': out += '\\'; break;
                    case '/': out += '/'; break;
                    case 'b': out += '\b'; break;
                    case 'f': out += '\f'; break;
                    case 'n': out += '\n'; break;
                    case 'r': out += '\r'; break;
                    case 't': out += '\t'; break;
                    case 'u': {
                        if (e - p < 5)
                            return fail("short \\u escape");
                        unsigned v = 0;
                        for (int i = 1; i <= 4; ++i) {
                            char c = p[i];
                            v <<= 4;
                            if (c >= '0' && c <= '9')
                                v |= c - '0';
                            else if (c >= 'a' && c <= 'f')
                                v |= c - 'a' + 10;
                            else if (c >= 'A' && c <= 'F')
                                v |= c - 'A' + 10;
                            else
                                return fail("bad \\u escape");
                        }
                        p += 4;
                        // keep it simple: store code point as UTF-8 (BMP only)
                        if (v < 0x80)
                            out += (char)v;
                        else if (v < 0x800) {
                            out += (char)(0xC0 | (v >> 6));
                            out += (char)(0x80 | (v & 0x3F));
                        } else {
                            out += (char)(0xE0 | (v >> 12));
                            out += (char)(0x80 | ((v >> 6) & 0x3F));
                            out += (char)(0x80 | (v & 0x3F));
                        }
                        break;
                    }
                    default: return fail("unknown escape");
                }
                ++p;
            } else
                out += *p++;
        }
        if (p >= e)
            return fail("unterminated string");
        ++p;
        return true;
    }
    bool val(JVal& v, int depth = 0)
    {
        if (depth > 64)
            return fail("too deep");
        ws();
        if (p >= e)
            return fail("unexpected end");
        if (*p == '{') {
            v.t = JVal::Obj;
            ++p;
            ws();
            if (p < e && *p == '}') {
                ++p;
                return true;
            }
            for (;;) {
                ws();
                std::string k;
                if (!str(k))
                    return false;
                ws();
                if (p >= e || *p != ':')
                    return fail("expected ':'");
                ++p;
                JVal c;
                if (!val(c, depth + 1))
                    return false;
                v.ok.push_back(k);
                v.ov.push_back(c);
                ws();
                if (p < e && *p == ',') {
                    ++p;
                    continue;
                }
                if (p < e && *p == '}') {
                    ++p;
                    return true;
                }
                return fail("expected ',' or '}'");
            }
        }
        if (*p == '[') {
            v.t = JVal::Arr;
            ++p;
            ws();
            if (p < e && *p == ']') {
                ++p;
                return true;
            }
            for (;;) {
                JVal c;
                if (!val(c, depth + 1))
                    return false;
                v.a.push_back(c);
                ws();
                if (p < e && *p == ',') {
                    ++p;
                    continue;
                }
                if (p < e && *p == ']') {
                    ++p;
                    return true;
                }
                return fail("expected ',' or ']'");
            }
        }
        if (*p == '"') {
            v.t = JVal::Str;
            return str(v.s);
        }
        if (e - p >= 4 && !strncmp(p, "true", 4)) {
            v.t = JVal::Bool;
            v.b = true;
            p += 4;
            return true;
        }
        if (e - p >= 5 && !strncmp(p, "false", 5)) {
            v.t = JVal::Bool;
            v.b = false;
            p += 5;
            return true;
        }
        if (e - p >= 4 && !strncmp(p, "null", 4)) {
            v.t = JVal::Null;
            p += 4;
            return true;
        }
        if (*p == '-' || (*p >= '0' && *p <= '9')) {
            v.t = JVal::Num;
            const char* s = p;
            if (*p == '-')
                ++p;
            if (p >= e || !(*p >= '0' && *p <= '9'))
                return fail("bad number");
            while (p < e && *p >= '0' && *p <= '9')
                ++p;
            if (p < e && *p == '.') {
                ++p;
                if (p >= e || !(*p >= '0' && *p <= '9'))
                    return fail("bad fraction");
                while (p < e && *p >= '0' && *p <= '9')
                    ++p;
            }
            if (p < e && (*p == 'e' || *p == 'E')) {
                ++p;
                if (p < e && (*p == '+' || *p == '-'))
                    ++p;
                if (p >= e || !(*p >= '0' && *p <= '9'))
                    return fail("bad exponent");
                while (p < e && *p >= '0' && *p <= '9')
                    ++p;
            }
            v.num.assign(s, p);
            return true;
        }
        return fail("unexpected character");
    }
};

inline bool
parse_json(const std::string& text, JVal& out, std::string& err)
{
    JParser ps{ text.data(), text.data() + text.size(), "" };
    if (!ps.val(out)) {
        err = ps.err;
        return false;
    }
    ps.ws();
    if (ps.p != ps.e) {
        err = "trailing characters after JSON value";
        return false;
    }
    return true;
}

// ---------------------------------------------------------------- BigTIFF
struct Dir
{
    uint64_t offset = 0;
    uint64_t ntags = 0;
    uint64_t next = 0;
    bool has[6] = { false };
    uint64_t width = 0, height = 0, bits = 0, fmt = 1, strip_off = 0, strip_len = 0;
    bool has_desc = false;
    std::string desc;
};

struct Interval
{
    uint64_t b, e;
    const char* what;
    int dir;
};

struct Tiff
{
    std::vector<Dir> dirs;
    std::vector<Interval> ivals;
    std::string err;      // first structural error
    std::string err_kind; // short class
};

// Byte source: a file read with pread (files may be sparse and larger than memory).
struct Src
{
    int fd = -1;
    uint64_t n = 0;
    uint64_t size() const { return n; }
    bool read(uint64_t off, void* dst, size_t len) const
    {
        if (off + len > n || off + len < off)
            return false;
        uint8_t* p = (uint8_t*)dst;
        while (len) {
            ssize_t r = ::pread(fd, p, len, (off_t)off);
            if (r <= 0)
                return false;
            p += r;
            off += (uint64_t)r;
            len -= (size_t)r;
        }
        return true;
    }
};

inline uint64_t
rd(const Src& f, uint64_t off, int n)
{
    uint8_t b[8] = { 0 };
    f.read(off, b, (size_t)n);
    uint64_t v = 0;
    for (int i = 0; i < n; ++i)
        v |= (uint64_t)b[i] << (8 * i);
    return v;
}

// Parses the file.  Returns false (with err / err_kind) on the first structural violation.
inline bool
read_tiff(const Src& f, Tiff& t)
{
    auto bad = [&](const char* kind, const std::string& m) {
        t.err = m;
        t.err_kind = kind;
        return false;
    };
    const uint64_t n = f.size();
    if (n < 16)
        return bad("header", "file shorter than a BigTIFF header (" + std::to_string(n) + " bytes)");
    if (rd(f, 0, 1) != 'I' || rd(f, 1, 1) != 'I')
        return bad("header", "byte order mark is not little-endian 'II'");
    if (rd(f, 2, 2) != 43)
        return bad("header", "version is not 43 (BigTIFF)");
    if (rd(f, 4, 2) != 8 || rd(f, 6, 2) != 0)
        return bad("header", "offset size is not 8 / reserved word not 0");
    t.ivals.push_back({ 0, 16, "header", -1 });
    uint64_t off = rd(f, 8, 8);
    if (off == 0)
        return bad("chain", "first directory offset is 0: no directory");
    size_t guard = 0;
    while (off != 0) {
        if (++guard > 100000)
            return bad("chain", "directory chain does not terminate (cycle)");
        for (auto& d : t.dirs)
            if (d.offset == off)
                return bad("chain", "directory chain revisits offset " + std::to_string(off));
        if (off + 8 > n)
            return bad("chain-offset", "directory " + std::to_string(t.dirs.size()) + " offset " + std::to_string(off) + " lies outside the file (" +
                                         std::to_string(n) + " bytes)");
        Dir d;
        d.offset = off;
        d.ntags = rd(f, off, 8);
        if (d.ntags > 4096)
            return bad("ifd", "implausible tag count " + std::to_string(d.ntags));
        uint64_t end = off + 8 + 20 * d.ntags + 8;
        if (end > n)
            return bad("ifd", "directory " + std::to_string(t.dirs.size()) + " extends beyond the end of the file");
        int di = (int)t.dirs.size();
        t.ivals.push_back({ off, end, "directory", di });
        for (uint64_t k = 0; k < d.ntags; ++k) {
            uint64_t q = off + 8 + 20 * k;
            uint64_t tag = rd(f, q, 2), type = rd(f, q + 2, 2), count = rd(f, q + 4, 8);
            uint64_t v = 0;
            auto scalar = [&]() -> bool {
                if (count != 1)
                    return false;
                switch (type) {
                    case 1: v = rd(f, q + 12, 1); return true;
                    case 3: v = rd(f, q + 12, 2); return true;
                    case 4: v = rd(f, q + 12, 4); return true;
                    case 16: v = rd(f, q + 12, 8); return true;
                    default: return false;
                }
            };
            auto set = [&](int idx, uint64_t& dst, const char* name) -> bool {
                if (!scalar())
                    return bad("tag", std::string(name) + " in directory " + std::to_string(di) + " is not a single integer (type " +
                                        std::to_string(type) + ", count " + std::to_string(count) + ")");
                if (d.has[idx])
                    return bad("tag", std::string(name) + " appears twice in directory " + std::to_string(di));
                d.has[idx] = true;
                dst = v;
                return true;
            };
            switch (tag) {
                case 256:
                    if (!set(0, d.width, "ImageWidth"))
                        return false;
                    break;
                case 257:
                    if (!set(1, d.height, "ImageLength"))
                        return false;
                    break;
                case 258:
                    if (!set(2, d.bits, "BitsPerSample"))
                        return false;
                    break;
                case 339:
                    if (!set(3, d.fmt, "SampleFormat"))
                        return false;
                    break;
                case 273:
                    if (!set(4, d.strip_off, "StripOffsets"))
                        return false;
                    break;
                case 279:
                    if (!set(5, d.strip_len, "StripByteCounts"))
                        return false;
                    break;
                case 270: {
                    if (type != 2)
                        return bad("tag", "ImageDescription is not ASCII");
                    if (d.has_desc)
                        return bad("tag", "ImageDescription appears twice");
                    d.has_desc = true;
                    if (count <= 8) {
                        char tmp[8];
                        f.read(q + 12, tmp, (size_t)count);
                        d.desc.assign(tmp, (size_t)count);
                    } else {
                        uint64_t so = rd(f, q + 12, 8);
                        if (so + count > n || so + count < so)
                            return bad("string-offset", "ImageDescription of directory " + std::to_string(di) + " ([" + std::to_string(so) + "," +
                                                          std::to_string(so + count) + ")) lies outside the file");
                        if (count > (1u << 24))
                            return bad("string-offset", "implausibly long ImageDescription");
                        d.desc.resize((size_t)count);
                        f.read(so, &d.desc[0], (size_t)count);
                        t.ivals.push_back({ so, so + count, "description", di });
                    }
                    // strip the terminator(s)
                    while (!d.desc.empty() && d.desc.back() == '\0')
                        d.desc.pop_back();
                    break;
                }
                default: break; // other tags: recorded by nobody, judged by nobody
            }
        }
        if (d.has[4] && d.has[5]) {
            if (d.strip_off + d.strip_len > n || d.strip_off + d.strip_len < d.strip_off)
                return bad("strip-offset", "strip of directory " + std::to_string(di) + " ([" + std::to_string(d.strip_off) + "," +
                                             std::to_string(d.strip_off + d.strip_len) + ")) lies outside the file");
            if (d.strip_len)
                t.ivals.push_back({ d.strip_off, d.strip_off + d.strip_len, "strip", di });
        }
        d.next = rd(f, off + 8 + 20 * d.ntags, 8);
        t.dirs.push_back(d);
        off = d.next;
    }
    // pairwise disjointness
    for (size_t i = 0; i < t.ivals.size(); ++i)
        for (size_t j = i + 1; j < t.ivals.size(); ++j) {
            const Interval &a = t.ivals[i], &b = t.ivals[j];
            if (a.b < b.e && b.b < a.e)
                return bad("overlap", std::string(a.what) + " of directory " + std::to_string(a.dir) + " [" + std::to_string(a.b) + "," +
                                        std::to_string(a.e) + ") overlaps " + b.what + " of directory " + std::to_string(b.dir) + " [" +
                                        std::to_string(b.b) + "," + std::to_string(b.e) + ")");
        }
    return true;
}

} // namespace tr
