// Harness `simcam` (C17, C18): the simulated cameras made by simcam_make_camera through the real
// driver table, used through the HAL, on the real platform.c running on vsim (exposure sleeps
// cost no real time).  Actors: caller A (frame calls), caller B (set/start/trigger/stop/...),
// the camera's streamer thread; interleaving by the TapeScheduler.
// See DESIGN.md section 3, harness `simcam`.
#include "vhx.hpp"
#include "vsim/sched.hpp"
#include "vsim/vsim.h"

#include <string>
#include <map>
#include <vector>

extern "C"
{
#include "device/hal/camera.h"
#include "device/hal/device.manager.h"
#include "device/hal/driver.h"
#include "device/kit/driver.h"
#include "identifiers.h"
#include "logger.h"
#include "platform.h"
    struct Driver* acquire_driver_init_v0(void (*reporter)(int, const char*, int, const char*, const char*));
}

namespace {

enum
{
    K_CFG,
    K_SET,
    K_START,
    K_FRAME,       // caller A
    K_TRIGGER,     // caller B
    K_TRIG_FRAME,  // caller B: trigger, then its own frame call
    K_STOP,
    K_SLEEP,
    K_GET,
    K_SCHED,
    K_BADFRAME,    // caller B: a frame call with a buffer that is too small (the device reports an error)
    K_FAILALLOC,   // the next SET meets an allocation failure (1st or 2nd buffer), is refused, and is retried
    K_LIVESET,     // caller B, camera running with the frame trigger enabled: set again with another "enabled" value, or with the trigger disabled
    K_OTHER,       // caller B: something happens on a second simulated camera of the same driver (set+start, trigger, stop, trigger+frame)
    K_COUNT
};

const VhKindSpec kKinds[K_COUNT] = {
    { "CFG", 1, 255, 0, 0, 0 },          { "SET", 5, 255, 65535, 65535, 65535 }, { "START", 4, 0, 0, 0, 0 },
    { "FRAME", 10, 3, 0, 0, 0 },         { "TRIGGER", 5, 0, 0, 0, 0 },           { "TRIG_FRAME", 4, 0, 0, 0, 0 },
    { "STOP", 3, 3, 0, 0, 0 },           { "SLEEP", 2, 255, 0, 0, 0 },           { "GET", 2, 0, 0, 0, 0 },
    { "SCHED", 4, 255, 65535, 65535, 65535 }, { "BADFRAME", 1, 0, 0, 0, 0 },
    { "FAILALLOC", 1, 255, 0, 0, 0 },         { "LIVESET", 2, 255, 0, 0, 0 },
    { "OTHER", 3, 255, 0, 0, 0 },
};

enum
{
    CL_RANDOM,
    CL_SIN,
    CL_EMPTY,
    CL_BIN_GT1,
    CL_BIN_REJECTED,
    CL_MULTIBYTE_ODD,
    CL_CLAMPED,
    CL_FRAME_DELIVERED,
    CL_TWO_CONFIGS,
    CL_TWO_RUNS,
    CL_TRIGGER_MODE,
    CL_STOP_WHILE_FRAME_BLOCKED,
    CL_TRIGGERS_INTERLEAVED,
    CL_LOCKSTEP,
    CL_FRAME_AFTER_STOP,
    CL_GAP_IN_IDS,
    CL_PCT,
    CL_PREEMPTED,
    CL_F32,
    CL_FAILED_FRAME_CALL,
    CL_FINE,
    CL_SET_ALLOC_FAIL,
    CL_STRADDLE,
    CL_STALE_FAILURE,
    CL_LIVESET_SAME,
    CL_LIVESET_OFF,
    CL_OTHER_CAMERA,
    CL_OTHER_TRIGGERED,
};

const VhSpec kSpec = {
    "simcam",
    kKinds,
    K_COUNT,
    80,
    { "C17", "C18", nullptr },
    { "camera_random", "camera_sin", "camera_empty", "binning_gt1", "binning_rejected", "multibyte_type_odd_width", "shape_clamped",
      "frame_delivered", "two_configurations", "two_runs", "trigger_mode", "stop_while_frame_call_blocked", "triggers_interleaved_with_frames",
      "lockstep_trigger_frame", "frame_call_after_stop", "gap_in_hardware_ids", "pct_schedule", "preemptions", "f32", "failed_frame_call_then_restart", "edge_preemptions",
      "set_refused_by_allocation_failure_then_retried", "frame_call_pending_across_restart", "frame_call_failed_across_restart", "live_set_other_enabled_value", "live_set_trigger_disabled", "second_camera_open", "second_camera_triggered_or_stopped_while_first_runs", nullptr },
    { "C17 non-trivial: >=1 frame fetched AND (binning > 1 or a multi-byte type with an odd width), or >=2 accepted configurations on one camera",
      "C18 non-trivial: >=2 runs on one camera, or a stop issued while a frame call was blocked, or >=3 triggers interleaved with frame calls, or a set on the running camera that changes only the trigger's enable value",
      nullptr },
};

struct Op
{
    int kind;
    VhTok t;
    int run; // for A's frame ops: the run (number of STARTs decoded before it) it belongs to
};

struct Run
{
    bool trigger_mode = false;
    float exposure_ms = 0;
    uint64_t start_ns = 0;
    int triggers = 0;
    int deliveries = 0;
    int64_t last_id = -1;
    bool pure_lockstep = true;
    int lockstep_count = 0;
    bool stopped = false;
};

struct Ctx
{
    VhCase c;
    Driver* driver = nullptr;
    Camera* cam = nullptr;
    int kind = 0;
    std::vector<Op> opsA, opsB;
    vsim::TapeSched sched;
    int fa = -1, fb = -1;
    bool doneA = false, doneB = false;
    // model
    bool configured = false;
    CameraProperties model; // values in effect
    ImageShape mshape;
    int configs = 0;
    bool running = false;
    std::vector<Run> runs;
    int started_runs = 0;
    bool a_blocked_in_frame = false;
    Camera* other = nullptr;       // a second camera of the same driver: what happens there must not show on the first
    bool other_running = false, other_trigger = false;
    int other_triggers = 0, other_deliveries = 0; // in its current run
    int64_t other_last_id = -1;
    int run_fibers_lo = 0, run_fibers_hi = 0; // fibers created by the latest camera_start of the first camera
    size_t a_runs_at_call = 0;     // number of runs begun when caller A entered its current frame call
    bool a_stale_failure = false;  // a frame call of A that began before the latest start has failed (see c18_fail)
    int a_frames_in_run = 0, b_triggers_in_run = 0;
    int frames_total = 0;
    size_t a_next = 0;      // index of the frame op caller A is at
    bool graceful_end = true;
    bool single_caller = false;
    bool needs_reset = false; // after a failed frame call the camera has to be configured again
    bool fetched_bin_or_odd = false;
    int pending_alloc_fail = 0; // the next SET's n-th buffer allocation fails (0 = none)
};

Ctx* g = nullptr;
DeviceManager g_dm;
int g_sim_fail_in = 0;      // simulated.camera.c's n-th realloc from now returns NULL (one shot)
bool g_sim_fail_fired = false;
std::map<void*, size_t> g_sim_sizes; // blocks handed to simulated.camera.c and their sizes (per case)

void
quiet_reporter(int, const char*, int, const char*, const char*)
{
}

size_t
bpp(SampleType t)
{
    switch (t) {
        case SampleType_u8:
        case SampleType_i8: return 1;
        case SampleType_f32: return 4;
        default: return 2;
    }
}

uint32_t
clampu(uint32_t v, uint32_t lo, uint32_t hi)
{
    return v < lo ? lo : (v > hi ? hi : v);
}

// ---- operations (run inside fibers) -------------------------------------------------------------

void
check_get(Ctx& x, const char* where)
{
    if (!x.configured || x.c.ended)
        return;
    ImageShape s;
    memset(&s, 0, sizeof s);
    if (camera_get_image_shape(x.cam, &s) != Device_Ok) {
        x.c.fail_soft("C17", "get-shape-status", "err", "%s: camera_get_image_shape failed", where);
        return;
    }
    const ImageShape& m = x.mshape;
    if (s.dims.channels != 1 || s.dims.planes != 1 || s.dims.width != m.dims.width || s.dims.height != m.dims.height) {
        x.c.fail_soft("C17", "reported-dims", "mismatch", "%s: camera reports dims (%u,%u,%u,%u); configuration implies (1,%u,%u,1)", where, s.dims.channels,
                 s.dims.width, s.dims.height, s.dims.planes, m.dims.width, m.dims.height);
        return;
    }
    if (s.strides.channels != 1 || s.strides.width != 1 || s.strides.height != (int64_t)m.dims.width ||
        s.strides.planes != (int64_t)m.dims.width * m.dims.height) {
        x.c.fail_soft("C17", "reported-strides", "mismatch", "%s: strides (%lld,%lld,%lld,%lld) do not match dims %ux%u", where, (long long)s.strides.channels,
                 (long long)s.strides.width, (long long)s.strides.height, (long long)s.strides.planes, m.dims.width, m.dims.height);
        return;
    }
    if (s.type != m.type) {
        x.c.fail_soft("C17", "reported-type", "mismatch", "%s: camera reports sample type %d, configured %d", where, (int)s.type, (int)m.type);
        return;
    }
    CameraProperties p;
    memset(&p, 0, sizeof p);
    if (camera_get(x.cam, &p) != Device_Ok) {
        x.c.fail_soft("C17", "get-status", "err", "%s: camera_get failed", where);
        return;
    }
    const CameraProperties& q = x.model;
    if (p.exposure_time_us != q.exposure_time_us || p.binning != q.binning || p.pixel_type != q.pixel_type || p.offset.x != q.offset.x ||
        p.offset.y != q.offset.y || p.shape.x != m.dims.width || p.shape.y != m.dims.height ||
        (p.input_triggers.frame_start.enable != 0) != (q.input_triggers.frame_start.enable != 0)) {
        x.c.fail_soft("C17", "readback", "mismatch",
                 "%s: read back exposure=%g binning=%u type=%d offset=(%u,%u) shape=(%u,%u) trigger=%u; in effect exposure=%g binning=%u type=%d offset=(%u,%u) shape=(%u,%u) trigger=%u",
                 where, p.exposure_time_us, p.binning, (int)p.pixel_type, p.offset.x, p.offset.y, p.shape.x, p.shape.y, p.input_triggers.frame_start.enable,
                 q.exposure_time_us, q.binning, (int)q.pixel_type, q.offset.x, q.offset.y, m.dims.width, m.dims.height, q.input_triggers.frame_start.enable);
        return;
    }
    CameraPropertyMetadata meta;
    memset(&meta, 0, sizeof meta);
    camera_get_meta(x.cam, &meta);
}

void do_stop(Ctx& x, bool graceful = false);

void
do_set(Ctx& x, const VhTok& t)
{
    if (x.running)
        do_stop(x, t.d & 0x8000 ? false : true); // configuration changes happen between runs in this harness
    // ... and never while the other caller is still inside a frame call (it sized its buffer for
    // the old shape): after the stop it comes back on its own.
    for (int spin = 0; x.a_blocked_in_frame && !x.c.ended && spin < 100000; ++spin)
        vsim::point(1);
    if (x.c.ended)
        return;
    static const uint8_t bins[16] = { 1, 1, 1, 2, 2, 4, 8, 1, 2, 4, 8, 0, 3, 16, 6, 1 };
    static const SampleType types[8] = { SampleType_u8, SampleType_u16, SampleType_i8, SampleType_i16, SampleType_f32, SampleType_u10, SampleType_u12, SampleType_u14 };
    CameraProperties p;
    memset(&p, 0, sizeof p);
    p.binning = bins[t.a % 16];
    p.pixel_type = types[(t.a / 16) % 8];
    uint32_t maxdim = 8192 / (p.binning ? p.binning : 1);
    auto pick = [&](uint16_t v, bool narrow) -> uint32_t {
        switch (v % 8) {
            case 0: return 1 + (v >> 3) % 16;
            case 1: return 1 + 2 * ((v >> 3) % 40); // odd
            case 2: return narrow ? 1 + (v >> 3) % 4 : maxdim - (v >> 3) % 3;
            case 3: return narrow ? 1 + (v >> 3) % 4 : maxdim + 1 + (v >> 3) % 1000; // beyond the limit: clamped
            case 4: return 0;                                                        // below the limit: clamped to 1
            case 5: return 32 * (1 + (v >> 3) % 6);
            case 6: return 31 + (v >> 3) % 4;
            default: return 1 + (v >> 3) % 200;
        }
    };
    bool big_x = (t.b % 8 == 2 || t.b % 8 == 3);
    p.shape.x = pick(t.b, false);
    p.shape.y = pick(t.c, big_x); // keep the area small when one axis is at the limit
    {
        // keep the rendered (full resolution) image small enough for thousands of cases per second:
        // at most 8 Ki pixels, rarely 64 Ki or 1 Mi
        uint64_t b2 = (uint64_t)(p.binning ? p.binning : 1) * (p.binning ? p.binning : 1);
        uint64_t budget = ((t.d >> 13) == 7) ? ((t.c & 0x100) ? (1u << 20) : (1u << 16)) : (1u << 13);
        // a camera that spins (exposure of 1 ms or less) renders an image at every turn the schedule gives it,
        // hundreds under a priority schedule: megapixel images only on cameras that sleep between frames
        static const float exps0[8] = { 0.f, 500.f, 2000.f, 5000.f, 10000.f, 20000.f, 50000.f, 1000.f };
        if (exps0[(t.d >> 8) & 7] <= 1000.f && budget > (1u << 16))
            budget = 1u << 16;
        uint32_t cx = clampu(p.shape.x, 1, maxdim), cy = clampu(p.shape.y, 1, maxdim);
        if ((uint64_t)cx * cy * b2 > budget) {
            uint32_t lim_y = (uint32_t)(budget / b2 / cx);
            p.shape.y = lim_y ? lim_y : 1;
            if ((uint64_t)cx * p.shape.y * b2 > budget) // x alone is too large (only at the clamp boundary)
                p.shape.y = 1 + (t.c >> 3) % 2;
        }
    }
    p.offset.x = (t.d & 0xf) * 3;
    p.offset.y = ((t.d >> 4) & 0xf) * 5;
    static const float exps[8] = { 0.f, 500.f, 2000.f, 5000.f, 10000.f, 20000.f, 50000.f, 1000.f };
    p.exposure_time_us = exps[(t.d >> 8) & 7];
    {
        // "enabled" is any non-zero value of the uint8_t field, not just 1
        static const uint8_t truthy[4] = { 1, 2, 0x80, 0xfe };
        p.input_triggers.frame_start.enable = ((t.d >> 11) & 1) ? truthy[(t.c >> 9) & 3] : 0;
    }
    const bool want_trigger = (t.d >> 11) & 1; // what the caller means, whatever the field can hold
    p.line_interval_us = 1.5f;
    uint8_t asked_binning = p.binning;
    x.c.trace("B: SET binning=%u type=%s shape=(%u,%u) offset=(%u,%u) exposure=%gus trigger=%u", p.binning, sample_type_as_string(p.pixel_type), p.shape.x,
              p.shape.y, p.offset.x, p.offset.y, p.exposure_time_us, p.input_triggers.frame_start.enable);
    CameraProperties asked = p;
    g_sim_fail_in = x.pending_alloc_fail;
    g_sim_fail_fired = false;
    x.pending_alloc_fail = 0;
    DeviceStatusCode r = camera_set(x.cam, &p);
    g_sim_fail_in = 0;
    if (g_sim_fail_fired) {
        // Out of memory inside the camera's set: the call must be refused (or cope), and -- what the
        // property is about -- the camera must stay memory-safe.  The caller configures again, as every
        // real caller does after a refused configuration; nothing is started in between.
        x.c.cls(CL_SET_ALLOC_FAIL);
        x.c.nontrivial(0);
        x.c.trace("    -> %s (injected allocation failure)%s", r == Device_Ok ? "Ok" : "refused", r == Device_Ok ? "" : "; the same SET again");
        if (r != Device_Ok) { // (a set that reports Ok despite the failure is taken at its word: the camera is used as configured)
            p = asked;
            r = camera_set(x.cam, &p);
        }
    }
    uint8_t eff = asked_binning ? asked_binning : 1; // the HAL turns 0 into 1
    bool pow2 = (eff & (eff - 1)) == 0;
    if (!pow2) {
        x.c.cls(CL_BIN_REJECTED);
        if (r == Device_Ok) {
            x.c.fail("C17", "binning-accepted", "non-power-of-two", "camera_set accepted binning %u", eff);
            return;
        }
        x.c.trace("    -> rejected");
        // a rejected configuration changes nothing
        if (x.configured)
            check_get(x, "after rejected set");
        return;
    }
    if (r != Device_Ok) {
        x.c.fail("C17", "set-rejected", "valid", "camera_set rejected a valid configuration (binning %u)", eff);
        return;
    }
    x.model = p;
    x.model.binning = eff;
    x.model.input_triggers.frame_start.enable = want_trigger ? 1 : 0;
    uint32_t lim = 8192 / eff;
    memset(&x.mshape, 0, sizeof x.mshape);
    x.mshape.dims.channels = 1;
    x.mshape.dims.width = clampu(p.shape.x, 1, lim);
    x.mshape.dims.height = clampu(p.shape.y, 1, lim);
    x.mshape.dims.planes = 1;
    x.mshape.type = p.pixel_type;
    if (x.mshape.dims.width != p.shape.x || x.mshape.dims.height != p.shape.y)
        x.c.cls(CL_CLAMPED);
    if (eff > 1)
        x.c.cls(CL_BIN_GT1);
    if (bpp(p.pixel_type) > 1 && (x.mshape.dims.width & 1))
        x.c.cls(CL_MULTIBYTE_ODD);
    if (p.pixel_type == SampleType_f32)
        x.c.cls(CL_F32);
    x.configured = true;
    if (++x.configs >= 2) {
        x.c.cls(CL_TWO_CONFIGS);
        x.c.nontrivial(0);
    }
    check_get(x, "after set");
}

// Known finding (DESIGN.md 8.1a): a frame call that begins while another thread's stop is in progress fails
// inside the device, and the HAL's failure path (camera.c: camera_stop(self); self->state = AwaitingConfiguration)
// then runs unsynchronised with the other thread.  If that thread has restarted the camera meanwhile, the
// stale failure stops the new run or overwrites its Running state, so that the next stop is skipped.  Every
// consequence is reported under one signature, and only in cases where such a call is on record: a failed
// call of A that began before the latest start, or one that is in flight and not waiting for a frame.
static bool
stale_failure_overlaps_restart(Ctx& x)
{
    if (x.a_stale_failure)
        return true;
    return x.fa >= 0 && x.a_blocked_in_frame && x.a_runs_at_call != x.runs.size() && vsim::info(x.fa).st != vsim::BLK_COND;
}
#define C18_FAIL(x, oracle, discr, ...)                                                                                                                        \
    do {                                                                                                                                                       \
        if (stale_failure_overlaps_restart(x))                                                                                                                 \
            (x).c.fail("C18", "after-stale-frame-failure", "overlapped-restart",                                                                               \
                       "a frame call that began during the previous stop failed after the camera was started again: the HAL's failure path acted on the new run (%s)", oracle); \
        else                                                                                                                                                   \
            (x).c.fail("C18", oracle, discr, __VA_ARGS__);                                                                                                     \
    } while (0)

void
do_start(Ctx& x)
{
    if (x.needs_reset && !x.running && !x.c.ended) {
        CameraProperties p = x.model;
        x.c.trace("B: SET (same configuration again, after the failed frame call)");
        if (camera_set(x.cam, &p) == Device_Ok)
            x.configured = true;
        x.needs_reset = false;
    }
    if (!x.configured || x.running || x.c.ended)
        return;
    x.c.trace("B: START (run %zu)%s", x.runs.size(), x.model.input_triggers.frame_start.enable ? "  [software trigger enabled]" : "");
    Run r;
    r.trigger_mode = x.model.input_triggers.frame_start.enable != 0;
    r.exposure_ms = x.model.exposure_time_us * 1e-3f;
    r.start_ns = vsim::now_ns();
    if (r.trigger_mode)
        x.c.cls(CL_TRIGGER_MODE);
    x.runs.push_back(r); // before the call: a frame may be delivered as soon as the camera runs
    x.running = true;
    x.a_frames_in_run = x.b_triggers_in_run = 0;
    const int fibers_before = vsim::nfibers();
    if (camera_start(x.cam) != Device_Ok) {
        C18_FAIL(x, "start-failed", "err", "camera_start failed");
        return;
    }
    x.run_fibers_lo = fibers_before; // the threads this start created (caller B is the only one who creates any)
    x.run_fibers_hi = vsim::nfibers();
    x.started_runs++;
    if (x.runs.size() >= 2) {
        x.c.cls(CL_TWO_RUNS);
        x.c.nontrivial(1);
    }
    if (x.fa >= 0)
        vsim::unpark(x.fa);
}

// One frame call by actor `who` ('A' or 'B').  Oracles for both properties.
void
do_frame(Ctx& x, char who)
{
    if (!x.configured || x.c.ended)
        return;
    size_t nb = (size_t)x.mshape.dims.width * x.mshape.dims.height * bpp(x.mshape.type);
    uint8_t* buf = (uint8_t*)malloc(nb ? nb : 1); // exact size: an over-fill is an AddressSanitizer report
    memset(buf, 0xA5, nb);
    size_t nbytes = nb;
    ImageInfo info;
    memset(&info, 0, sizeof info);
    const uint64_t SENT = 0xfeedfacecafebeefull;
    info.hardware_frame_id = SENT;
    size_t run_idx = x.runs.empty() ? 0 : x.runs.size() - 1;
    size_t runs_at_call = x.runs.size();
    bool was_running = x.running;
    if (who == 'A') {
        x.a_blocked_in_frame = true;
        x.a_runs_at_call = runs_at_call;
    }
    int trig_before = x.runs.empty() ? 0 : x.runs[run_idx].triggers;
    DeviceStatusCode r = camera_get_frame(x.cam, buf, &nbytes, &info);
    if (who == 'A') {
        x.a_blocked_in_frame = false;
        if (r != Device_Ok && x.runs.size() != runs_at_call) {
            // the case ends here: the skipped stop that follows leaves a streamer behind that the next SET
            // pulls the buffers away from (a sanitizer report has no signature to attribute)
            x.a_stale_failure = true;
            x.c.cls(CL_STALE_FAILURE);
            C18_FAIL(x, "frame-call-failed-across-restart", "err", "-");
        }
    }
    bool delivered = r == Device_Ok && info.hardware_frame_id != SENT;
    x.c.trace("%c: FRAME -> %s%s id=%lld", who, r == Device_Ok ? "Ok" : "Err", delivered ? " delivered" : " (no frame)", delivered ? (long long)info.hardware_frame_id : -1LL);
    if (!was_running && !x.running)
        x.c.cls(CL_FRAME_AFTER_STOP);
    if (delivered && !x.c.ended) {
        x.c.cls(CL_FRAME_DELIVERED);
        x.frames_total++;
        if (x.model.binning > 1 || (bpp(x.mshape.type) > 1 && (x.mshape.dims.width & 1)))
            x.c.nontrivial(0);
        // C17: the frame has the reported shape
        const ImageShape& m = x.mshape;
        if (info.shape.dims.width != m.dims.width || info.shape.dims.height != m.dims.height || info.shape.type != m.type ||
            info.shape.strides.height != (int64_t)m.dims.width)
            x.c.fail("C17", "frame-shape", "mismatch", "frame info says %ux%u type %d, the camera reports %ux%u type %d", info.shape.dims.width, info.shape.dims.height,
                     (int)info.shape.type, m.dims.width, m.dims.height, (int)m.type);
        // under-fill heuristic (random camera only: every byte is written by the generator)
        if (!x.c.ended && x.kind == 0 && nb >= 16) {
            bool tail_untouched = true;
            for (size_t k = nb - 8; k < nb; ++k)
                tail_untouched &= (buf[k] == 0xA5);
            if (tail_untouched)
                x.c.fail("C17", "frame-underfilled", "tail", "the last 8 of %zu image bytes were not written by the frame call", nb);
        }
        // C18 (per-run oracles only when the call lies within one run: a call that was pending across a stop
        // and a restart may return a frame of either run, depending on when the caller is scheduled again)
        bool straddles = x.runs.size() != runs_at_call || (run_idx < x.runs.size() && x.runs[run_idx].stopped && x.runs.size() - 1 != run_idx);
        if (straddles)
            x.c.cls(CL_STRADDLE);
        if (!x.c.ended && !x.runs.empty() && !straddles) {
            Run& run = x.runs[run_idx];
            int64_t id = (int64_t)info.hardware_frame_id;
            if (id <= run.last_id)
                C18_FAIL(x, "id-not-increasing", id == run.last_id ? "repeat" : "backwards", "run %zu: frame id %lld delivered after id %lld", run_idx, (long long)id,
                         (long long)run.last_id);
            else if (id > run.last_id + 1)
                x.c.cls(CL_GAP_IN_IDS);
            if (!x.c.ended && run.deliveries == 0) {
                // the count restarts with each start
                if (id < 0)
                    C18_FAIL(x, "first-id", "negative", "run %zu: first delivered id is %lld", run_idx, (long long)id);
                else if (run.trigger_mode) {
                    if (id >= run.triggers)
                        C18_FAIL(x, "first-id", "beyond-triggers", "run %zu: first delivered id is %lld but only %d triggers were issued in this run", run_idx,
                                 (long long)id, run.triggers);
                } else if (run.exposure_ms >= 2.0f) {
                    double elapsed_ms = (double)(vsim::now_ns() - run.start_ns) * 1e-6;
                    double bound = elapsed_ms / run.exposure_ms + 2.0;
                    if ((double)id > bound)
                        C18_FAIL(x, "first-id", "not-restarted", "run %zu: first delivered id is %lld after %.3f ms at %.1f ms exposure: the count did not restart with start",
                                 run_idx, (long long)id, elapsed_ms, run.exposure_ms);
                }
            }
            run.last_id = id;
            run.deliveries++;
            if (!x.c.ended && run.trigger_mode && run.deliveries > run.triggers)
                C18_FAIL(x, "more-frames-than-triggers", run.triggers == 0 ? "before-first-trigger" : "excess",
                         "run %zu: %d frames delivered but only %d triggers issued (at the start of this frame call: %d)", run_idx, run.deliveries, run.triggers, trig_before);
        }
    }
    free(buf);
}

// A second simulated camera, opened from the same driver, used by caller B only (its calls never overlap).
// The first camera's oracles go on unchanged and the second camera's lock-step frames obey the same id and
// trigger rules, so anything the two instances share (a trigger latch, a frame counter, a buffer) shows.
void
do_other(Ctx& x, uint8_t a)
{
    if (x.c.ended)
        return;
    if (!x.other) {
        DeviceIdentifier id;
        memset(&id, 0, sizeof id);
        id.kind = DeviceKind_Camera;
        id.device_id = (uint8_t)((x.kind + 1 + ((a >> 4) & 1)) % 3);
        x.other = camera_open(&g_dm, &id);
        if (!x.other)
            return;
        x.c.cls(CL_OTHER_CAMERA);
        x.c.trace("B: OPEN a second camera (kind %d)", (int)id.device_id);
    }
    const bool first_live = x.running && !x.runs.empty();
    switch (a & 3) {
        case 0:
            if (!x.other_running) {
                CameraProperties p;
                memset(&p, 0, sizeof p);
                p.binning = 1;
                p.pixel_type = SampleType_u8;
                p.shape.x = 4;
                p.shape.y = 3;
                p.exposure_time_us = 5000.f; // it sleeps between frames: virtual time moves on
                x.other_trigger = (a >> 2) & 1;
                p.input_triggers.frame_start.enable = x.other_trigger ? ((a >> 3) & 1 ? 0x80 : 1) : 0;
                x.c.trace("B: second camera: SET 4x3 u8 trigger=%u, START", p.input_triggers.frame_start.enable);
                if (camera_set(x.other, &p) == Device_Ok && camera_start(x.other) == Device_Ok)
                    x.other_running = true;
                x.other_triggers = x.other_deliveries = 0;
                x.other_last_id = -1;
                break;
            }
            // fallthrough: already running
        case 1:
            x.c.trace("B: second camera: TRIGGER");
            if (x.other_running)
                x.other_triggers++;
            camera_execute_trigger(x.other);
            if (first_live && x.other_running)
                x.c.cls(CL_OTHER_TRIGGERED);
            break;
        case 2:
            if (x.other_running) {
                x.c.trace("B: second camera: STOP");
                camera_stop(x.other);
                x.other_running = false;
                if (first_live)
                    x.c.cls(CL_OTHER_TRIGGERED);
            }
            break;
        case 3:
            if (x.other_running) {
                uint8_t buf[16];
                size_t nb = sizeof buf;
                ImageInfo info;
                memset(&info, 0, sizeof info);
                const uint64_t SENT = 0xfeedfacecafebeefull;
                info.hardware_frame_id = SENT;
                if (x.other_trigger) {
                    x.other_triggers++;
                    camera_execute_trigger(x.other);
                }
                DeviceStatusCode r = camera_get_frame(x.other, buf, &nb, &info);
                x.c.trace("B: second camera: %sFRAME -> %s id=%lld", x.other_trigger ? "TRIGGER, " : "", r == Device_Ok ? "Ok" : "Err",
                          info.hardware_frame_id == SENT ? -1LL : (long long)info.hardware_frame_id);
                if (r != Device_Ok)
                    x.other_running = false; // the HAL has stopped it
                else if (info.hardware_frame_id != SENT) {
                    // the same rules hold for the second camera (only caller B uses it: calls do not overlap)
                    int64_t id = (int64_t)info.hardware_frame_id;
                    x.other_deliveries++;
                    if (id <= x.other_last_id)
                        C18_FAIL(x, "id-not-increasing", "second-camera", "second camera: frame id %lld delivered after id %lld", (long long)id, (long long)x.other_last_id);
                    else if (x.other_trigger && (x.other_deliveries > x.other_triggers || id >= x.other_triggers))
                        C18_FAIL(x, "more-frames-than-triggers", "second-camera", "second camera: frame #%d with id %lld delivered but only %d triggers issued in its run",
                                 x.other_deliveries, (long long)id, x.other_triggers);
                    x.other_last_id = id;
                } else if (x.other_trigger)
                    C18_FAIL(x, "lockstep-no-frame", "second-camera", "second camera: a trigger followed by a frame call delivered no frame while it was running");
            }
            break;
    }
}

void
do_trigger(Ctx& x)
{
    if (!x.configured || x.c.ended)
        return;
    if (!x.runs.empty() && x.running) {
        x.runs.back().triggers++; // counted before the call: a frame may follow immediately
        x.b_triggers_in_run++;
        if (x.b_triggers_in_run >= 3 && x.a_frames_in_run >= 1) {
            x.c.cls(CL_TRIGGERS_INTERLEAVED);
            x.c.nontrivial(1);
        }
    }
    x.c.trace("B: TRIGGER");
    camera_execute_trigger(x.cam);
}

// Lets caller A finish the frame calls it can finish before B stops the camera (otherwise most
// frame calls would be cut short by the stop).  Never waits for a frame that needs a trigger only
// B could give.
void
wait_for_a(Ctx& x)
{
    int cur_run = (int)x.runs.size() - 1;
    for (int spin = 0; spin < 30000 && !x.c.ended; ++spin) {
        if (x.doneA || x.a_next >= x.opsA.size())
            return;
        if (x.opsA[x.a_next].run > cur_run && !x.a_blocked_in_frame)
            return; // A is waiting for a later run
        if (x.a_blocked_in_frame && !x.runs.empty() && x.runs.back().trigger_mode && x.runs.back().deliveries >= x.runs.back().triggers)
            return; // A waits for a trigger
        vsim::point(2);
    }
}

void
do_stop(Ctx& x, bool graceful)
{
    if (!x.running || x.c.ended)
        return;
    if (graceful)
        wait_for_a(x);
    x.c.trace("B: STOP%s", x.a_blocked_in_frame ? "   (A is inside a frame call)" : "");
    if (x.a_blocked_in_frame) {
        x.c.cls(CL_STOP_WHILE_FRAME_BLOCKED);
        x.c.nontrivial(1);
    }
    x.running = false; // from now on frame calls may legitimately come back without a frame
    camera_stop(x.cam);
    if (!x.runs.empty())
        x.runs.back().stopped = true;
    // "stop ... returns": and when it has, the threads of that run are gone (whoever else was stopping the
    // camera at the same time, e.g. the HAL after a frame call that failed because of this very stop)
    for (int f = x.run_fibers_lo; f < x.run_fibers_hi && !x.c.ended; ++f)
        if (vsim::info(f).st != vsim::DONE)
            C18_FAIL(x, "streamer-alive-after-stop", "at-return", "camera_stop returned while the camera thread this run started is still %s", vsim::state_name(vsim::info(f).st));
    x.run_fibers_lo = x.run_fibers_hi = 0;
}

void
actor_b(void*)
{
    Ctx& x = *g;
    for (size_t i = 0; i < x.opsB.size() && !x.c.ended; ++i) {
        const Op& op = x.opsB[i];
        switch (op.kind) {
            case K_SET: do_set(x, op.t); break;
            case K_START: do_start(x); break;
            case K_TRIGGER: do_trigger(x); break;
            case K_TRIG_FRAME: {
                // B makes frame calls of its own only when caller A makes none (any more): otherwise A
                // may take the triggered frame and B, the only one who triggers and stops, would wait forever.
                bool a_in_this_run = !x.opsA.empty() && !x.doneA; // A may still be catching up with an earlier run
                if (a_in_this_run) {
                    do_trigger(x);
                    break;
                }
                if (x.running && !x.runs.empty() && x.runs.back().trigger_mode) {
                    Run& run = x.runs.back();
                    int before = run.deliveries;
                    bool pure = run.pure_lockstep && x.a_frames_in_run == 0 && run.triggers == run.lockstep_count;
                    do_trigger(x);
                    if (x.c.ended)
                        break;
                    do_frame(x, 'B');
                    if (x.c.ended)
                        break;
                    x.c.cls(CL_LOCKSTEP);
                    Run& run2 = x.runs.back();
                    if (pure && run2.deliveries == before + 1) {
                        // every trigger so far was followed by exactly one frame call: ids are 0,1,2,...
                        if (run2.last_id != run2.lockstep_count)
                            C18_FAIL(x, "lockstep-id", "mismatch", "trigger #%d of this run followed by one frame call delivered id %lld (expected %d)",
                                     run2.lockstep_count + 1, (long long)run2.last_id, run2.lockstep_count);
                    } else if (pure && run2.deliveries == before && x.running)
                        C18_FAIL(x, "lockstep-no-frame", "missing", "a trigger followed by a frame call delivered no frame while the camera was running");
                    run2.lockstep_count++;
                } else if (x.running && !x.runs.empty()) {
                    x.runs.back().pure_lockstep = false;
                    do_frame(x, 'B');
                }
                break;
            }
            case K_STOP: do_stop(x, (op.t.a & 3) != 0); break;
            case K_BADFRAME: {
                // A frame call the device rejects (buffer smaller than the image).  The HAL stops the
                // camera on such a failure; the next run must start counting from zero again.
                if (!x.running || !x.configured)
                    break;
                wait_for_a(x);
                size_t nb = (size_t)x.mshape.dims.width * x.mshape.dims.height * bpp(x.mshape.type);
                if (nb < 2)
                    break;
                size_t small = nb - 1;
                uint8_t* buf = (uint8_t*)malloc(small);
                ImageInfo info;
                memset(&info, 0, sizeof info);
                x.c.trace("B: FRAME with a %zu-byte buffer for a %zu-byte image", small, nb);
                x.running = false; // whatever happens, the run is over for the oracle's purposes
                DeviceStatusCode r = camera_get_frame(x.cam, buf, &small, &info);
                free(buf);
                if (r == Device_Ok) {
                    x.c.fail("C17", "short-buffer-accepted", "frame", "camera_get_frame accepted a buffer smaller than the image");
                    break;
                }
                x.c.cls(CL_FAILED_FRAME_CALL);
                if (!x.runs.empty())
                    x.runs.back().stopped = true;
                // the HAL has stopped the camera: configure again before the next start
                x.configured = false;
                x.needs_reset = true;
                break;
            }
            case K_SLEEP: {
                struct clock c;
                clock_init(&c);
                // relative to the exposure: a camera whose exposure is 1 ms or less spins (clock_sleep_ms only
                // sleeps for more than a millisecond), and virtual time then only creeps forward with its clock
                // readings, a few microseconds per rendered frame: a wait measured in milliseconds would cost
                // thousands of rendered images
                const float e_ms = x.model.exposure_time_us * 1e-3f;
                if (e_ms > 1.0f) {
                    float ms = 0.2f + (float)(op.t.a % 9) * e_ms;
                    clock_sleep_ms(&c, ms > 40.f ? 40.f : ms);
                } else {
                    // let the spinning camera take a few turns instead
                    for (int i = 0, n = 1 + 4 * (op.t.a % 9); i < n && !x.c.ended; ++i)
                        vsim::point(0);
                }
                break;
            }
            case K_GET: check_get(x, "GET"); break;
            case K_LIVESET: {
                // The one re-configuration the camera supports while it runs ("fire if disabling the software
                // trigger while live"): everything stays as it is except the trigger's enable field.  Another
                // non-zero value means the same thing (still enabled: no frame without a trigger); zero
                // releases the streamer, the run goes on free-running.
                if (!x.running || !x.configured || x.runs.empty() || !x.runs.back().trigger_mode || (size_t)x.started_runs != x.runs.size())
                    break;
                static const uint8_t vals[6] = { 1, 2, 0x80, 0xfe, 0, 0x40 };
                uint8_t v = vals[op.t.a % 6];
                CameraProperties p = x.model;
                if (v == p.input_triggers.frame_start.enable)
                    v = (uint8_t)(v == 1 ? 0xfe : 1);
                p.input_triggers.frame_start.enable = v;
                x.c.trace("B: SET while running: trigger=%u (was %u), nothing else changes", v, x.model.input_triggers.frame_start.enable);
                Run& run = x.runs.back();
                if (!v) {
                    run.trigger_mode = false; // before the call: frames flow as soon as the camera has it
                    run.pure_lockstep = false;
                    x.c.cls(CL_LIVESET_OFF);
                } else
                    x.c.cls(CL_LIVESET_SAME);
                x.c.nontrivial(1);
                if (camera_set(x.cam, &p) != Device_Ok) {
                    // refused: the HAL has stopped the camera (as after a failed frame call)
                    x.c.trace("    -> refused");
                    x.running = false;
                    run.stopped = true;
                    x.configured = false;
                    x.needs_reset = true;
                    break;
                }
                x.model.input_triggers.frame_start.enable = v;
                break;
            }
            case K_OTHER: do_other(x, op.t.a); break;
            case K_FAILALLOC:
                x.pending_alloc_fail = 1 + (op.t.a & 1);
                x.c.trace("B: (the next SET meets an allocation failure at its buffer #%d)", x.pending_alloc_fail);
                break;
        }
    }
    if (!x.c.ended)
        do_stop(x, x.graceful_end);
    if (!x.c.ended && x.other && x.other_running) {
        x.c.trace("B: second camera: STOP");
        camera_stop(x.other);
        x.other_running = false;
    }
    x.doneB = true;
    if (x.fa >= 0)
        vsim::unpark(x.fa);
}

void
actor_a(void*)
{
    Ctx& x = *g;
    for (size_t i = 0; i < x.opsA.size() && !x.c.ended; ++i) {
        const Op& op = x.opsA[i];
        x.a_next = i;
        // wait until B has started the run this frame call belongs to (or is done)
        while (x.started_runs <= op.run && !x.doneB && !x.c.ended)
            vsim::park();
        if (x.c.ended)
            break;
        if (!x.runs.empty())
            x.runs.back().pure_lockstep = false;
        x.a_frames_in_run++;
        do_frame(x, 'A');
    }
    x.a_next = x.opsA.size();
    x.doneA = true;
}

} // namespace

extern "C" struct Driver*
device_manager_get_driver(const struct DeviceManager*, const struct DeviceIdentifier*)
{
    return g->driver;
}
// simulated.camera.c is compiled with -Drealloc=vh_sim_realloc
extern "C" void*
vh_sim_realloc(void* p, size_t n)
{
    if (g_sim_fail_in > 0 && --g_sim_fail_in == 0) {
        g_sim_fail_fired = true;
        return nullptr; // the old block stays valid, as with the real realloc
    }
    // A block that already has the requested size stays where it is, as with the C library's realloc
    // (AddressSanitizer's always moves): re-configuring a running camera with the same shape does not pull
    // the buffer away from under the streamer.
    if (p && g_sim_sizes.count(p) && g_sim_sizes[p] == n)
        return p;
    void* q = realloc(p, n);
    if (q) {
        if (p)
            g_sim_sizes.erase(p);
        g_sim_sizes[q] = n;
    }
    return q;
}
// basics.driver.c refers to the storage devices; they are not part of this harness.
extern "C" struct Storage*
basics_make_storage(int)
{
    return nullptr;
}
extern "C" void
basics_storage_shutdown(struct Driver*)
{
}

extern "C" const VhSpec*
vh_spec(void)
{
    return &kSpec;
}

extern "C" int
vh_run(const VhTok* tape, size_t n, VhReport* rep)
{
    Ctx* px = new Ctx();
    Ctx& x = *px;
    g = px;
    x.c.begin(rep, &kSpec);
    vsim::reset();
    g_sim_sizes.clear();
    logger_set_reporter(quiet_reporter);
    x.driver = acquire_driver_init_v0(quiet_reporter);

    size_t ti = 0;
    if (n) { // camera kind: from the first token, whatever it is
        x.kind = (tape[0].a / 7 + tape[0].kind) % 3;
        x.graceful_end = (tape[0].a / 21) % 4 != 0;
        x.single_caller = (tape[0].a % 7) < 2;
    }
    if (n && tape[0].kind % K_COUNT == K_CFG)
        ti = 1;
    x.c.cls(CL_RANDOM + x.kind);
    x.c.mix(x.kind);
    int runs_decoded = 0;
    bool any_set = false;
    for (; ti < n; ++ti) {
        const VhTok& t = tape[ti];
        int kind = t.kind % K_COUNT;
        rep->steps++;
        if (kind == K_CFG)
            continue;
        if (kind == K_SCHED) {
            if (x.sched.bytes.empty() && (t.a & 1)) {
                x.sched.mode = vsim::TapeSched::PCT;
                x.c.cls(CL_PCT);
            }
            x.sched.arm_fine(t.a, t.b, t.c, t.d);
            uint16_t w[3] = { t.b, t.c, t.d };
            for (uint16_t v : w) {
                if (x.sched.mode == vsim::TapeSched::PCT && x.sched.change_points.size() < 4)
                    x.sched.change_points.push_back(v % 400);
                x.sched.bytes.push_back((uint8_t)(v & 0xff));
                x.sched.bytes.push_back((uint8_t)(v >> 8));
            }
            x.c.mix(0x5c00 + t.a);
            x.c.mix(((uint64_t)t.b << 32) | ((uint64_t)t.c << 16) | t.d);
            continue;
        }
        x.c.mix(kind * 977u + t.a);
        x.c.mix(((uint64_t)t.b << 32) | ((uint64_t)t.c << 16) | t.d);
        Op op = { kind, t, runs_decoded };
        // frame/trigger/stop tokens before any START: start the camera first, so that they mean something
        bool needs_run = (kind == K_FRAME || kind == K_TRIGGER || kind == K_TRIG_FRAME) && runs_decoded == 0;
        if (kind == K_START || needs_run) {
            if (!any_set) { // a camera must be configured before its first start: default configuration
                Op s = { K_SET, VhTok{ K_SET, 0, 9, 9, 0 }, runs_decoded };
                x.opsB.push_back(s);
                any_set = true;
            }
            runs_decoded++;
            if (needs_run) {
                Op st = { K_START, VhTok{ K_START, 0, 0, 0, 0 }, runs_decoded };
                x.opsB.push_back(st);
            }
        }
        if (kind == K_SET)
            any_set = true;
        if (kind == K_FRAME) {
            if (x.single_caller) { // one thread does everything: frame calls become trigger+frame by B
                op.kind = K_TRIG_FRAME;
                x.opsB.push_back(op);
                continue;
            }
            op.run = runs_decoded ? runs_decoded - 1 : 0;
            x.opsA.push_back(op);
            continue;
        }
        x.opsB.push_back(op);
    }

    DeviceIdentifier id;
    memset(&id, 0, sizeof id);
    id.kind = DeviceKind_Camera;
    id.device_id = (uint8_t)x.kind; // BasicDevice_Camera_Random / Sin / Empty
    x.cam = camera_open(&g_dm, &id);
    if (!x.cam) {
        x.c.fail("C17", "open-failed", "camera", "camera_open failed for simulated camera kind %d", x.kind);
    } else {
        x.c.trace("OPEN simulated camera kind=%d (%s)", x.kind, x.kind == 0 ? "uniform random" : x.kind == 1 ? "radial sin" : "empty");
        x.fb = vsim::spawn(actor_b, nullptr, "caller-B");
        x.fa = vsim::spawn(actor_a, nullptr, "caller-A");
        int blocked = -1;
        vsim::RunResult rr = vsim::run(x.sched, 60000, [&]() { return (x.doneA && x.doneB) || x.c.ended; }, &blocked);
        if (x.sched.preemptions)
            x.c.cls(CL_PREEMPTED);
        if (vsim::edge_preemptions())
            x.c.cls(CL_FINE);
        if (!x.c.ended) {
            if (rr == vsim::RUN_DEADLOCK || rr == vsim::RUN_QUIET) {
                const vsim::Info& bi = vsim::info(blocked >= 0 ? blocked : 0);
                C18_FAIL(x, "deadlock", x.doneB ? "frame-call-never-returns" : "stop-or-caller-blocked",
                         "nothing can run any more: caller A %s, caller B %s; fiber '%s' is %s", x.doneA ? "finished" : "NOT finished",
                         x.doneB ? "finished" : "NOT finished", bi.name, vsim::state_name(bi.st));
            } else if (rr == vsim::RUN_STEPLIMIT)
                x.c.trace("(step limit reached: inconclusive)");
            else if (vsim::error())
                C18_FAIL(x, "platform-misuse", "vsim", "%s", vsim::error());
        }
        if (!x.c.ended && rr == vsim::RUN_DONE) {
            // every thread the camera created must be gone after stop
            for (int f = 0; f < vsim::nfibers(); ++f)
                if (f != x.fa && f != x.fb && vsim::info(f).st != vsim::DONE && !x.c.ended)
                    C18_FAIL(x, "streamer-alive-after-stop", vsim::state_name(vsim::info(f).st), "a camera thread is still %s after stop returned",
                             vsim::state_name(vsim::info(f).st));
            if (!x.c.ended) {
                x.c.trace("CLOSE");
                camera_close(x.cam); // runs in the main context: nothing may block here
                if (x.other)
                    camera_close(x.other);
            }
        }
    }
    if (x.driver && x.driver->shutdown)
        x.driver->shutdown(x.driver);
    vsim::reset();
    g = nullptr;
    delete px;
    return rep->verdict;
}
