// Harness `props` (C13): StorageProperties init/set/copy/destroy sequences against a C++ value
// model, with an allocation ledger (props/storage.c is compiled with malloc/realloc/free renamed
// to vh_malloc/vh_realloc/vh_free).  See DESIGN.md section 3, harness `props`.
#include "vhx.hpp"

#include <map>
#include <optional>
#include <set>
#include <string>
#include <vector>

extern "C"
{
#include "device/props/storage.h"
}

// ----------------------------------------------------------------------------------------------
// allocation ledger
// ----------------------------------------------------------------------------------------------
namespace {
struct Block
{
    size_t size;
    bool live;
};
std::map<void*, Block> g_blocks;      // every block handed to storage.c in this case
std::vector<void*> g_quarantine;      // released blocks: zero-filled, really freed at case end
bool g_ledger_on = false;
long g_fail_in = 0;       // >0: the g_fail_in-th allocation request from now fails (one shot)
bool g_fail_fired = false; // an injected failure was delivered during the current operation
const char* g_ledger_err = nullptr;   // first misuse seen (double free, foreign pointer)
char g_ledger_errbuf[200];

void
ledger_err(const char* what, void* p)
{
    if (!g_ledger_err) {
        snprintf(g_ledger_errbuf, sizeof g_ledger_errbuf, "%s %p", what, p);
        g_ledger_err = g_ledger_errbuf;
    }
}
} // namespace

static bool
inject_failure()
{
    if (g_ledger_on && g_fail_in > 0 && --g_fail_in == 0) {
        g_fail_fired = true;
        return true;
    }
    return false;
}

extern "C" void*
vh_malloc(size_t n)
{
    if (inject_failure())
        return nullptr;
    void* p = malloc(n ? n : 1);
    if (g_ledger_on && p)
        g_blocks[p] = Block{ n, true };
    return p;
}

extern "C" void*
vh_calloc(size_t n, size_t m)
{
    void* p = vh_malloc(n * m);
    if (p)
        memset(p, 0, n * m ? n * m : 1);
    return p;
}

extern "C" void
vh_free(void* p)
{
    if (!p)
        return;
    if (!g_ledger_on) {
        free(p);
        return;
    }
    auto it = g_blocks.find(p);
    if (it == g_blocks.end()) {
        ledger_err("free of a pointer storage.c never allocated", p);
        return;
    }
    if (!it->second.live) {
        ledger_err("double free", p);
        return;
    }
    it->second.live = false;
    memset(p, 0, it->second.size); // released memory reads as zero: a later use is visible, not fatal
    g_quarantine.push_back(p);
}

extern "C" void*
vh_realloc(void* p, size_t n)
{
    if (!g_ledger_on)
        return realloc(p, n);
    if (!p)
        return vh_malloc(n);
    auto it = g_blocks.find(p);
    if (it == g_blocks.end() || !it->second.live) {
        ledger_err(it == g_blocks.end() ? "realloc of a foreign pointer" : "realloc of a freed block", p);
        return nullptr;
    }
    if (inject_failure())
        return nullptr; // the old block stays valid and owned by the caller
    void* q = malloc(n ? n : 1); // always move: stale aliases of the old block become visible
    size_t old = it->second.size;
    memcpy(q, p, old < n ? old : n);
    g_blocks[q] = Block{ n, true };
    it->second.live = false;
    memset(p, 0, old);
    g_quarantine.push_back(p);
    return q;
}

// ----------------------------------------------------------------------------------------------
// model
// ----------------------------------------------------------------------------------------------
namespace {

using Bytes = std::string; // stored bytes including the forced terminator

struct MDim
{
    std::optional<Bytes> name;
    int kind = 0;
    uint32_t array = 0, chunk = 0, shard = 0;
    bool operator==(const MDim& o) const
    {
        return name == o.name && kind == o.kind && array == o.array && chunk == o.chunk && shard == o.shard;
    }
};

struct MProps
{
    std::optional<Bytes> s[4]; // uri, meta, key, secret
    uint32_t first_frame_id = 0;
    double sx = 0, sy = 0;
    uint8_t multiscale = 0;
    std::vector<MDim> dims;
    int set_dim_count[8] = { 0 };
    bool owns() const
    {
        for (auto& x : s)
            if (x)
                return true;
        return !dims.empty();
    }
};

enum
{
    K_INIT,
    K_SET_URI,
    K_SET_META,
    K_SET_KEYS,
    K_SET_DIM,
    K_SET_MULTI,
    K_COPY,
    K_DESTROY,
    K_FAIL_ALLOC,
    K_COUNT
};

const VhKindSpec kKinds[K_COUNT] = {
    { "INIT", 4, 255, 65535, 65535, 65535 },      { "SET_URI", 2, 255, 65535, 0, 0 },
    { "SET_META", 2, 255, 65535, 0, 0 },          { "SET_KEYS", 2, 255, 65535, 65535, 0 },
    { "SET_DIM", 5, 255, 65535, 65535, 65535 },   { "SET_MULTI", 1, 255, 0, 0, 0 },
    { "COPY", 6, 255, 0, 0, 0 },                  { "DESTROY", 2, 255, 0, 0, 0 },
    { "FAIL_ALLOC", 1, 255, 0, 0, 0 },
};

enum
{
    CL_COPY,
    CL_COPY_SRC_DIMS,
    CL_COPY_DST_DIMS,
    CL_COPY_BOTHWAYS,
    CL_COPY_DST_FRESH,
    CL_SETDIM_OK,
    CL_SETDIM_TWICE,
    CL_SETDIM_REJECTED,
    CL_STR_NULL,
    CL_STR_UNTERMINATED,
    CL_STR_LONG,
    CL_STR_GROW,
    CL_DESTROY_THEN_REUSE,
    CL_ALLOC_FAIL,
    CL_ALLOC_FAIL_GROW,
    CL_ALLOC_FAIL_COPY,
};

const VhSpec kSpec = {
    "props",
    kKinds,
    K_COUNT,
    64,
    { "C13", nullptr },
    { "copy", "copy_src_has_dims", "copy_dst_has_dims", "copy_both_ways", "copy_into_fresh", "set_dim_ok",
      "set_dim_twice_same_index", "set_dim_rejected", "string_null", "string_unterminated", "string_long",
      "string_grows", "destroy_then_reuse", "allocation_failure_delivered", "allocation_failure_while_growing_a_string",
      "allocation_failure_inside_copy", nullptr },
    { "sequence contains a copy whose source has >=1 dimension, or copies in both directions between the same two "
      "objects, or set_dimension applied twice to one index, or an injected allocation failure delivered inside a call; "
      "distinct = distinct decoded operation sequence",
      nullptr },
};

struct InStr
{
    char* ptr = nullptr; // exact-size heap block (or NULL)
    size_t nbytes = 0;
    std::string desc;
    ~InStr() { free(ptr); }
    InStr() = default;
    InStr(const InStr&) = delete;
};

struct Ctx
{
    VhCase c;
    StorageProperties obj[3];
    MProps model[3];
    bool copied[3][3] = { { false } };
    bool destroyed_once[3] = { false };
    // an injected allocation failure hit a call on this object: its field values are unspecified from
    // then on (the call reported failure), but it must stay structurally valid and releasable
    bool degraded[3] = { false };
};

// Build an input string from a 16-bit selector.  Exact-size heap block, so any over-read by the
// code under test is an AddressSanitizer report.
void
make_string(Ctx& x, uint16_t sel, InStr& out, bool force_terminated)
{
    unsigned mode = sel & 7;
    unsigned v = sel >> 3; // 13 bits
    uint64_t seed = vh_mix64(sel * 2654435761u);
    auto fill = [&](size_t n, bool term, bool embedded_nul) {
        out.ptr = (char*)malloc(n ? n : 1);
        out.nbytes = n;
        for (size_t i = 0; i < n; ++i) {
            uint64_t r = vh_mix64(seed + i);
            out.ptr[i] = (char)(1 + r % 255);
            if (embedded_nul && (r >> 20) % 7 == 0)
                out.ptr[i] = 0;
        }
        if (term && n)
            out.ptr[n - 1] = 0;
    };
    char d[64];
    if (force_terminated) {
        size_t n = 1 + v % 24;
        if (mode == 7)
            n = 1 + v % 300;
        fill(n + 1, true, false);
        snprintf(d, sizeof d, "term[%zu]", n + 1);
        out.desc = d;
        return;
    }
    switch (mode) {
        case 0:
            out.ptr = nullptr;
            out.nbytes = v % 3; // NULL pointer, possibly with a non-zero length
            x.c.cls(CL_STR_NULL);
            snprintf(d, sizeof d, "NULL/%zu", out.nbytes);
            break;
        case 1:
            fill(1, true, false);
            out.nbytes = 0; // valid pointer, zero length
            snprintf(d, sizeof d, "ptr/0");
            break;
        case 2:
            fill(1, true, false);
            snprintf(d, sizeof d, "\"\"[1]");
            break;
        case 3:
        case 4:
            fill(2 + v % 40, true, (v >> 8) % 8 == 0);
            snprintf(d, sizeof d, "term[%zu]", out.nbytes);
            break;
        case 5:
            fill(1 + v % 40, false, false);
            x.c.cls(CL_STR_UNTERMINATED);
            snprintf(d, sizeof d, "unterm[%zu]", out.nbytes);
            break;
        case 6:
            fill(2 + v % 4096, true, false);
            x.c.cls(CL_STR_LONG);
            snprintf(d, sizeof d, "term[%zu]", out.nbytes);
            break;
        default:
            fill(1 + v % 4096, false, (v >> 9) % 4 == 0);
            x.c.cls(CL_STR_LONG);
            x.c.cls(CL_STR_UNTERMINATED);
            snprintf(d, sizeof d, "unterm[%zu]", out.nbytes);
            break;
    }
    out.desc = d;
}

// What the documented contract stores for an input (ptr, nbytes): the bytes with the last one
// forced to NUL; NULL/empty input becomes the empty string "".
Bytes
stored_value(const char* p, size_t n)
{
    if (!p || !n)
        return Bytes(1, '\0');
    Bytes b(p, n);
    b[n - 1] = '\0';
    return b;
}

String*
str_of(StorageProperties& o, int i)
{
    switch (i) {
        case 0: return &o.uri;
        case 1: return &o.external_metadata_json;
        case 2: return &o.access_key_id;
        default: return &o.secret_access_key;
    }
}
const char* kStrName[4] = { "uri", "external_metadata_json", "access_key_id", "secret_access_key" };

// Compare one String of the real object with the model.  `lenient_unset`: an unset model string may
// also appear as "" (copy of an unset source).
bool
check_string(Ctx& x, const char* where, int slot, const char* field, const String& s, const std::optional<Bytes>& m)
{
    if (!m) {
        if (s.str != nullptr || s.nbytes != 0)
            return x.c.fail("C13", "string-model", field, "%s: slot %d %s expected unset, got str=%p nbytes=%zu", where, slot,
                            field, (void*)s.str, s.nbytes);
        return false;
    }
    if (!s.str)
        return x.c.fail("C13", "string-model", field, "%s: slot %d %s is NULL, model has %zu bytes", where, slot, field,
                        m->size());
    if (s.is_ref != 0)
        return x.c.fail("C13", "string-owned", field, "%s: slot %d %s is_ref=%d, expected an owned copy", where, slot, field,
                        s.is_ref);
    auto it = g_blocks.find(s.str);
    if (it == g_blocks.end() || !it->second.live)
        return x.c.fail("C13", "string-block", field, "%s: slot %d %s points to %s memory", where, slot, field,
                        it == g_blocks.end() ? "foreign" : "released");
    if (s.nbytes != m->size())
        return x.c.fail("C13", "string-length", field, "%s: slot %d %s recorded length %zu, expected %zu", where, slot, field,
                        s.nbytes, m->size());
    if (it->second.size < s.nbytes)
        return x.c.fail("C13", "string-length", field, "%s: slot %d %s recorded length %zu exceeds its block (%zu)", where,
                        slot, field, s.nbytes, it->second.size);
    if (s.nbytes == 0 || s.str[s.nbytes - 1] != '\0')
        return x.c.fail("C13", "string-terminated", field, "%s: slot %d %s not NUL-terminated at its recorded length %zu", where,
                        slot, field, s.nbytes);
    if (memcmp(s.str, m->data(), s.nbytes) != 0)
        return x.c.fail("C13", "string-bytes", field, "%s: slot %d %s bytes differ from what was stored", where, slot, field);
    return false;
}

// Full comparison of every slot with the model + ownership/disjointness + ledger consistency.
bool
check_all(Ctx& x, const char* where)
{
    if (g_ledger_err)
        return x.c.fail("C13", "ledger", "misuse", "%s: %s", where, g_ledger_err);
    std::map<void*, int> owner; // block -> slot
    auto claim = [&](void* p, int slot, const char* what) -> bool {
        if (!p)
            return false;
        auto it = g_blocks.find(p);
        if (it == g_blocks.end() || !it->second.live)
            return x.c.fail("C13", "dangling", what, "%s: slot %d %s points to %s memory", where, slot, what,
                            it == g_blocks.end() ? "foreign" : "released");
        auto ins = owner.insert({ p, slot });
        if (!ins.second)
            return x.c.fail("C13", "shared-memory", what, "%s: block %p (%s) is referenced by slot %d and slot %d", where, p,
                            what, ins.first->second, slot);
        return false;
    };
    // structural validity of a String whose value is unspecified (object hit by an allocation failure)
    auto valid_string = [&](int slot, const char* field, const String& st) -> bool {
        if (!st.str)
            return false; // nothing stored
        if (st.is_ref != 0)
            return x.c.fail("C13", "string-owned", field, "%s: slot %d %s is_ref=%d after a failed call, expected an owned copy or NULL", where,
                            slot, field, st.is_ref);
        if (claim(st.str, slot, field))
            return true;
        auto it = g_blocks.find(st.str);
        if (it->second.size < st.nbytes)
            return x.c.fail("C13", "string-length", field, "%s: slot %d %s recorded length %zu exceeds its block (%zu) after a failed call", where,
                            slot, field, st.nbytes, it->second.size);
        if (st.nbytes == 0 || st.str[st.nbytes - 1] != '\0')
            return x.c.fail("C13", "string-terminated", field, "%s: slot %d %s not NUL-terminated at its recorded length %zu after a failed call",
                            where, slot, field, st.nbytes);
        return false;
    };
    for (int i = 0; i < 3; ++i) {
        StorageProperties& o = x.obj[i];
        MProps& m = x.model[i];
        if (x.degraded[i]) {
            for (int k = 0; k < 4; ++k)
                if (valid_string(i, kStrName[k], *str_of(o, k)))
                    return true;
            if (o.acquisition_dimensions.data) {
                if (claim(o.acquisition_dimensions.data, i, "dimension array"))
                    return true;
                auto it = g_blocks.find(o.acquisition_dimensions.data);
                if (it->second.size < o.acquisition_dimensions.size * sizeof(StorageDimension))
                    return x.c.fail("C13", "dims-model", "array-size", "%s: slot %d dimension array block smaller than its recorded size %zu",
                                    where, i, (size_t)o.acquisition_dimensions.size);
                for (size_t d = 0; d < o.acquisition_dimensions.size; ++d)
                    if (valid_string(i, "dimension.name", o.acquisition_dimensions.data[d].name))
                        return true;
            }
            continue;
        }
        for (int k = 0; k < 4; ++k) {
            if (check_string(x, where, i, kStrName[k], *str_of(o, k), m.s[k]))
                return true;
            if (claim(str_of(o, k)->str, i, kStrName[k]))
                return true;
        }
        if (o.first_frame_id != m.first_frame_id || o.pixel_scale_um.x != m.sx || o.pixel_scale_um.y != m.sy ||
            o.enable_multiscale != m.multiscale)
            return x.c.fail("C13", "scalar-model", "scalars",
                            "%s: slot %d scalars (ffid %u scale %g,%g multiscale %d) expected (%u %g,%g %d)", where, i,
                            o.first_frame_id, o.pixel_scale_um.x, o.pixel_scale_um.y, o.enable_multiscale,
                            m.first_frame_id, m.sx, m.sy, m.multiscale);
        if (o.acquisition_dimensions.size != m.dims.size())
            return x.c.fail("C13", "dims-model", "count", "%s: slot %d has %zu dimensions, expected %zu", where, i,
                            o.acquisition_dimensions.size, m.dims.size());
        if ((o.acquisition_dimensions.data == nullptr) != m.dims.empty())
            return x.c.fail("C13", "dims-model", "pointer", "%s: slot %d dimension array pointer %p with %zu dimensions", where, i,
                            (void*)o.acquisition_dimensions.data, m.dims.size());
        if (!m.dims.empty()) {
            if (claim(o.acquisition_dimensions.data, i, "dimension array"))
                return true;
            auto it = g_blocks.find(o.acquisition_dimensions.data);
            if (it->second.size < m.dims.size() * sizeof(StorageDimension))
                return x.c.fail("C13", "dims-model", "array-size", "%s: slot %d dimension array block too small", where, i);
            for (size_t d = 0; d < m.dims.size(); ++d) {
                StorageDimension& sd = o.acquisition_dimensions.data[d];
                if (check_string(x, where, i, "dimension.name", sd.name, m.dims[d].name))
                    return true;
                if (claim(sd.name.str, i, "dimension.name"))
                    return true;
                if ((int)sd.kind != m.dims[d].kind || sd.array_size_px != m.dims[d].array ||
                    sd.chunk_size_px != m.dims[d].chunk || sd.shard_size_chunks != m.dims[d].shard)
                    return x.c.fail("C13", "dims-model", "fields", "%s: slot %d dimension %zu fields (%d,%u,%u,%u) expected (%d,%u,%u,%u)",
                                    where, i, d, (int)sd.kind, sd.array_size_px, sd.chunk_size_px, sd.shard_size_chunks,
                                    m.dims[d].kind, m.dims[d].array, m.dims[d].chunk, m.dims[d].shard);
            }
        }
    }
    // every live block must be reachable from exactly one slot: otherwise it can never be released
    for (auto& kv : g_blocks)
        if (kv.second.live && !owner.count(kv.first))
            return x.c.fail("C13", "leak", "unreachable-block", "%s: a %zu-byte block allocated by storage.c is live but no longer referenced by any object",
                            where, kv.second.size);
    // released memory must stay untouched (we zero-filled it)
    for (void* q : g_quarantine) {
        auto it = g_blocks.find(q);
        const unsigned char* b = (const unsigned char*)q;
        for (size_t k = 0; k < it->second.size; ++k)
            if (b[k])
                return x.c.fail("C13", "write-after-free", "released-block", "%s: released block %p written at offset %zu", where, q, k);
    }
    return false;
}

void
do_destroy(Ctx& x, int s)
{
    storage_properties_destroy(&x.obj[s]);
    x.model[s] = MProps();
    // destroy leaves the scalars; a careful caller zeroes the object before reuse — so do we.
    // Pointers must already have been cleared for everything that was released:
    StorageProperties keep = x.obj[s];
    memset(&x.obj[s], 0, sizeof(x.obj[s]));
    for (int k = 0; k < 4; ++k) {
        const String* st = str_of(keep, k);
        if (st->str) {
            auto it = g_blocks.find(st->str);
            if (it != g_blocks.end() && it->second.live) {
                x.c.fail("C13", "leak", "destroy-left-string", "destroy left %s allocated", kStrName[k]);
                return;
            }
        }
    }
    x.destroyed_once[s] = true;
    x.degraded[s] = false;
}

} // namespace

extern "C" const VhSpec*
vh_spec(void)
{
    return &kSpec;
}

extern "C" int
vh_run(const VhTok* tape, size_t n, VhReport* rep)
{
    Ctx* px = new Ctx();
    Ctx& x = *px;
    x.c.begin(rep, &kSpec);
    memset(x.obj, 0, sizeof x.obj);
    g_blocks.clear();
    g_quarantine.clear();
    g_ledger_err = nullptr;
    g_ledger_on = true;

    g_fail_in = 0;
    g_fail_fired = false;
    // outcome of a call that an injected allocation failure may have hit; returns true when the
    // ordinary model update must be skipped (object is / stays in the unspecified-value state)
    auto after_call = [&](int ok, int slot, const char* checkname, const char* disc, const char* what) -> bool {
        if (g_fail_fired) {
            x.c.cls(CL_ALLOC_FAIL);
            x.c.nontrivial(0);
            x.c.trace("   (injected allocation failure delivered; call returned %d)", ok);
            x.degraded[slot] = true;
            x.model[slot] = MProps();
            check_all(x, "after a call hit by an allocation failure");
            return true;
        }
        if (!ok) {
            x.c.fail("C13", checkname, disc, "%s", what);
            return true;
        }
        if (x.degraded[slot]) {
            check_all(x, "after a call on an object in the unspecified-value state");
            return true;
        }
        return false;
    };
    for (size_t ti = 0; ti < n && !x.c.ended; ++ti) {
        const VhTok& t = tape[ti];
        int kind = t.kind % K_COUNT;
        int s = t.a % 3;
        rep->steps++;
        g_fail_fired = false;
        x.c.mix(kind * 1000003u + t.a);
        x.c.mix(((uint64_t)t.b << 32) | ((uint64_t)t.c << 16) | t.d);
        switch (kind) {
            case K_INIT: {
                if (x.model[s].owns() || x.degraded[s]) {
                    x.c.trace("DESTROY %d   (implicit, before INIT)", s);
                    do_destroy(x, s);
                    if (x.c.ended)
                        break;
                }
                if (x.destroyed_once[s])
                    x.c.cls(CL_DESTROY_THEN_REUSE);
                InStr uri, meta;
                make_string(x, t.b, uri, false);
                make_string(x, t.c, meta, false);
                static const int kNd[12] = { 1, 2, 3, 0, 1, 4, 6, 2, 5, 1, 2, 3 };
                int ndims = kNd[(t.a / 3) % 12];
                PixelScale sc = { (double)(t.d & 0xff) / 4.0, (double)(t.d >> 8) / 8.0 };
                uint32_t ffid = (uint32_t)vh_mix64(t.d) & 0xffff;
                x.c.trace("INIT %d uri=%s meta=%s ffid=%u scale=(%g,%g) ndims=%d", s, uri.desc.c_str(), meta.desc.c_str(), ffid,
                          sc.x, sc.y, ndims);
                int ok = storage_properties_init(&x.obj[s], ffid, uri.ptr, uri.nbytes, meta.ptr, meta.nbytes, sc, (uint8_t)ndims);
                if (after_call(ok, s, "init-status", "init", "storage_properties_init returned 0 for valid arguments"))
                    break;
                MProps& m = x.model[s];
                m = MProps();
                m.s[0] = stored_value(uri.ptr, uri.nbytes);
                m.s[1] = stored_value(meta.ptr, meta.nbytes);
                m.first_frame_id = ffid;
                m.sx = sc.x;
                m.sy = sc.y;
                m.dims.assign(ndims, MDim());
                check_all(x, "after init");
                break;
            }
            case K_SET_URI:
            case K_SET_META: {
                InStr in;
                make_string(x, t.b, in, false);
                int k = kind == K_SET_URI ? 0 : 1;
                x.c.trace("%s %d %s", kind == K_SET_URI ? "SET_URI" : "SET_META", s, in.desc.c_str());
                Bytes v = stored_value(in.ptr, in.nbytes);
                if (x.model[s].s[k] && v.size() > x.model[s].s[k]->size())
                    x.c.cls(CL_STR_GROW);
                int ok = k == 0 ? storage_properties_set_uri(&x.obj[s], in.ptr, in.nbytes)
                                : storage_properties_set_external_metadata(&x.obj[s], in.ptr, in.nbytes);
                if (g_fail_fired && x.model[s].s[k] && v.size() > x.model[s].s[k]->size())
                    x.c.cls(CL_ALLOC_FAIL_GROW);
                if (after_call(ok, s, "set-status", kStrName[k], "setter returned 0"))
                    break;
                x.model[s].s[k] = v;
                check_all(x, "after set string");
                break;
            }
            case K_SET_KEYS: {
                InStr a, b;
                make_string(x, t.b, a, false);
                make_string(x, t.c, b, false);
                x.c.trace("SET_KEYS %d key=%s secret=%s", s, a.desc.c_str(), b.desc.c_str());
                int ok = storage_properties_set_access_key_and_secret(&x.obj[s], a.ptr, a.nbytes, b.ptr, b.nbytes);
                if (after_call(ok, s, "set-status", "keys", "setter returned 0"))
                    break;
                x.model[s].s[2] = stored_value(a.ptr, a.nbytes);
                x.model[s].s[3] = stored_value(b.ptr, b.nbytes);
                check_all(x, "after set keys");
                break;
            }
            case K_SET_DIM: {
                MProps& m = x.model[s];
                int nd = (int)m.dims.size();
                if (x.degraded[s])
                    nd = x.obj[s].acquisition_dimensions.data ? (int)x.obj[s].acquisition_dimensions.size : 0;
                unsigned isel = t.a / 3; // 0..85
                int index;
                if (isel % 16 == 15)
                    index = nd + (int)(isel / 16); // out of range (>= size)
                else if (isel % 16 == 14)
                    index = -1 - (int)(isel / 16); // negative
                else
                    index = nd ? (int)(isel % nd) : 0;
                unsigned nmode = t.c & 15;
                InStr name;
                const char* nptr;
                size_t nbytes;
                make_string(x, t.b, name, true);
                nptr = name.ptr;
                nbytes = name.nbytes;
                const char* ndesc = name.desc.c_str();
                InStr emptyname;
                if (nmode == 0) { // NULL name
                    nptr = nullptr;
                    ndesc = "NULL";
                } else if (nmode == 1) { // zero length
                    nbytes = 0;
                    ndesc = "len0";
                } else if (nmode == 2) { // empty string
                    emptyname.ptr = (char*)malloc(1);
                    emptyname.ptr[0] = 0;
                    nptr = emptyname.ptr;
                    nbytes = 1;
                    ndesc = "\"\"";
                } else if (nmode == 3 && nbytes > 2) { // length shorter than the C string
                    nbytes = 1 + (t.c >> 4) % (nbytes - 1);
                }
                int kindv = (t.c >> 4) % 4;
                if ((t.c >> 6) % 16 == 15)
                    kindv = 4 + (t.c >> 10) % 3; // invalid kinds 4,5,6
                if ((t.c >> 6) % 64 == 62)
                    kindv = 1000;
                uint32_t arr = t.d & 0xff, chunk = (t.d >> 8), shard = (uint32_t)vh_mix64(t.d) & 0x3ff;
                bool expect_ok = index >= 0 && index < nd && nptr && nbytes > 0 && nptr[0] != 0 && kindv < DimensionTypeCount;
                x.c.trace("SET_DIM %d index=%d name=%s(nbytes=%zu) kind=%d array=%u chunk=%u shard=%u  -> expect %s", s, index,
                          ndesc, nbytes, kindv, arr, chunk, shard, expect_ok ? "ok" : "rejected");
                int ok = storage_properties_set_dimension(&x.obj[s], index, nptr, nbytes, (DimensionType)kindv, arr, chunk, shard);
                if (g_fail_fired || x.degraded[s]) {
                    if (!g_fail_fired && (ok != 0) != expect_ok) {
                        x.c.fail("C13", "set-dimension-status", expect_ok ? "valid-rejected" : "invalid-accepted",
                                 "set_dimension(index=%d of %d, kind=%d) returned %d", index, nd, kindv, ok);
                        break;
                    }
                    after_call(1, s, "", "", "");
                    break;
                }
                if ((ok != 0) != expect_ok) {
                    x.c.fail("C13", "set-dimension-status", expect_ok ? "valid-rejected" : "invalid-accepted",
                             "set_dimension(index=%d of %d, kind=%d) returned %d", index, nd, kindv, ok);
                    break;
                }
                if (expect_ok) {
                    x.c.cls(CL_SETDIM_OK);
                    MDim& d = m.dims[index];
                    d.name = stored_value(nptr, nbytes);
                    d.kind = kindv;
                    d.array = arr;
                    d.chunk = chunk;
                    d.shard = shard;
                    if (++m.set_dim_count[index] >= 2) {
                        x.c.cls(CL_SETDIM_TWICE);
                        x.c.nontrivial(0);
                    }
                } else
                    x.c.cls(CL_SETDIM_REJECTED);
                check_all(x, "after set_dimension");
                break;
            }
            case K_SET_MULTI: {
                uint8_t v = (uint8_t)((t.a / 3) & 1);
                x.c.trace("SET_MULTISCALE %d %d", s, v);
                if (after_call(storage_properties_set_enable_multiscale(&x.obj[s], v), s, "set-status", "multiscale", "setter returned 0"))
                    break;
                x.model[s].multiscale = v;
                check_all(x, "after set multiscale");
                break;
            }
            case K_COPY: {
                int src = t.a % 3;
                int dst = (src + 1 + (t.a / 3) % 2) % 3;
                x.c.trace("COPY %d -> %d   (src dims=%zu, dst dims=%zu, dst %s)", src, dst, x.model[src].dims.size(),
                          x.model[dst].dims.size(), x.model[dst].owns() ? "live" : "zeroed");
                x.c.cls(CL_COPY);
                if (!x.model[src].dims.empty()) {
                    x.c.cls(CL_COPY_SRC_DIMS);
                    x.c.nontrivial(0);
                }
                if (!x.model[dst].dims.empty())
                    x.c.cls(CL_COPY_DST_DIMS);
                if (!x.model[dst].owns())
                    x.c.cls(CL_COPY_DST_FRESH);
                x.copied[src][dst] = true;
                if (x.copied[dst][src]) {
                    x.c.cls(CL_COPY_BOTHWAYS);
                    x.c.nontrivial(0);
                }
                StorageProperties before;
                memcpy(&before, &x.obj[src], sizeof before);
                int ok = storage_properties_copy(&x.obj[dst], &x.obj[src]);
                if (memcmp(&before, &x.obj[src], sizeof before) != 0) {
                    x.c.fail("C13", "copy-source-touched", "struct", "copy modified the source object itself");
                    break;
                }
                if (g_fail_fired)
                    x.c.cls(CL_ALLOC_FAIL_COPY);
                if (ok && !g_fail_fired && !x.degraded[src])
                    x.degraded[dst] = false; // a complete copy of a fully specified source specifies every field again
                else if (ok && !g_fail_fired && x.degraded[src])
                    x.degraded[dst] = true;
                if (after_call(ok, dst, "copy-status", "copy", "storage_properties_copy returned 0"))
                    break;
                // model: destination becomes equal to the source; unset strings become "".
                MProps& md = x.model[dst];
                const MProps& ms = x.model[src];
                for (int k = 0; k < 4; ++k)
                    md.s[k] = ms.s[k] ? *ms.s[k] : Bytes(1, '\0');
                md.first_frame_id = ms.first_frame_id;
                md.sx = ms.sx;
                md.sy = ms.sy;
                md.multiscale = ms.multiscale;
                md.dims = ms.dims;
                for (auto& d : md.dims)
                    if (!d.name)
                        d.name = Bytes(1, '\0');
                memset(md.set_dim_count, 0, sizeof md.set_dim_count);
                // (source content, pointers into live memory, disjointness: check_all)
                check_all(x, "after copy");
                break;
            }
            case K_FAIL_ALLOC: {
                g_fail_in = 1 + (t.a / 3) % 8;
                x.c.trace("FAIL_ALLOC: allocation request number %ld from now fails", g_fail_in);
                break;
            }
            case K_DESTROY: {
                x.c.trace("DESTROY %d", s);
                do_destroy(x, s);
                if (!x.c.ended)
                    check_all(x, "after destroy");
                break;
            }
        }
    }
    if (!x.c.ended) {
        x.c.trace("END: destroy all");
        g_fail_in = 0;
        for (int s = 0; s < 3 && !x.c.ended; ++s)
            do_destroy(x, s);
        if (!x.c.ended)
            check_all(x, "at end");
        if (!x.c.ended)
            for (auto& kv : g_blocks)
                if (kv.second.live) {
                    x.c.fail("C13", "leak", "live-at-end", "a %zu-byte block is still allocated after every object was destroyed",
                             kv.second.size);
                    break;
                }
    }
    // really release everything
    g_ledger_on = false;
    for (auto& kv : g_blocks)
        free(kv.first);
    g_blocks.clear();
    g_quarantine.clear();
    delete px;
    return rep->verdict;
}
