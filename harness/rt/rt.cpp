// Harness `rt` (C04-C10): the real runtime (acquire.c, source/filter/sink, channel, HAL, loader,
// device manager) on the real platform.c running on vsim; devices are the scripted vmock devices
// loaded by the real loader through a trampoline library.  Ring capacities are chosen by the
// case (sink.c/filter.c are compiled with -Dchannel_new=vh_channel_new).  The client program runs
// as a fiber; the schedule is part of the case.  See DESIGN.md section 3, harness `rt`.
#include "vhx.hpp"
#include "vmock.hpp"
#include "vsim/sched.hpp"
#include "vsim/vsim.h"

#include <algorithm>
#include <cmath>
#include <string>
#include <vector>

extern "C"
{
#include "acquire.h"
#include "device/hal/device.manager.h"
#include "logger.h"
#include "runtime/channel.h"
    void channel_new(struct channel* self, size_t capacity);
}

namespace vmock {
extern void (*on_append)(Instance*, const VideoFrame*, size_t);
}

namespace {

enum
{
    K_RUN,        // macro: configure + start + stop-when-done
    K_STREAM,
    K_CAM,
    K_PACE,
    K_AVG,
    K_DELAY,
    K_RING,
    K_FAULT,
    K_CONFIGURE,
    K_START,
    K_STOP_DONE,
    K_STOP_NOW,
    K_ABORT,
    K_ABORT_OTHER,
    K_TRIGGER,
    K_MAP,
    K_UNMAP,
    K_SLEEP,
    K_GET_STATE,
    K_REINIT,
    K_SCHED,
    K_OPENFAULT, // the next configure finds the camera / storage device it wants to open refused (one shot)
    K_COUNT
};

const VhKindSpec kKinds[K_COUNT] = {
    { "RUN", 8, 255, 65535, 65535, 65535 }, { "STREAM", 3, 255, 0, 0, 0 },      { "CAM", 5, 255, 65535, 65535, 65535 },
    { "PACE", 3, 255, 65535, 65535, 0 },    { "AVG", 2, 255, 255, 0, 0 },       { "DELAY", 2, 255, 255, 255, 0 },
    { "RING", 2, 255, 255, 0, 0 },          { "FAULT", 2, 255, 255, 1, 0 },     { "CONFIGURE", 3, 3, 0, 0, 0 },
    { "START", 4, 0, 0, 0, 0 },             { "STOP_DONE", 4, 0, 0, 0, 0 },     { "STOP_NOW", 2, 0, 0, 0, 0 },
    { "ABORT", 3, 0, 0, 0, 0 },             { "ABORT_OTHER", 2, 255, 0, 0, 0 }, { "TRIGGER", 3, 1, 0, 0, 0 },
    { "MAP", 5, 1, 0, 0, 0 },               { "UNMAP", 5, 1, 255, 0, 0 },       { "SLEEP", 3, 255, 0, 0, 0 },
    { "GET_STATE", 2, 0, 0, 0, 0 },         { "REINIT", 1, 0, 0, 0, 0 },        { "SCHED", 5, 255, 65535, 65535, 65535 },
    { "OPENFAULT", 1, 3, 0, 0, 0 },
};

enum
{
    P_C04,
    P_C05,
    P_C06,
    P_C07,
    P_C08,
    P_C09,
    P_C10,
    P_C02, // integration-level part of the channel properties (see the rules below)
    P_C03
};

enum
{
    CL_ACQ_DONE,
    CL_TWO_ACQ,
    CL_TWO_STREAMS,
    CL_WRAPS3,
    CL_SINK_CAUGHT_UP_AT_WRAP,
    CL_SOURCE_BLOCKED,
    CL_MONITOR_LAG,
    CL_WRITE_DELAY,
    CL_ODD_IMAGE_BYTES,
    CL_PACKET_AFTER_WRAP,
    CL_PARTIAL_CONSUME,
    CL_MONITOR,
    CL_MONITOR_LATE,
    CL_HOLD,
    CL_ABORT,
    CL_ABORT_WHILE_BLOCKED,
    CL_ABORT_WHILE_MAPPED,
    CL_ABORT_OTHER_THREAD,
    CL_TRIGGER_MODE,
    CL_AVG,
    CL_AVG_2WINDOWS,
    CL_FAULT_CAMERA,
    CL_FAULT_STORAGE,
    CL_FAULT_START,
    CL_FAULT_FIRED,
    CL_FAULT_WHILE_BLOCKED,
    CL_REINIT,
    CL_START_WHILE_RUNNING,
    CL_DEVICE_SWITCH,
    CL_STREAM_TOGGLED,
    CL_NOFRAME,
    CL_HWGAP,
    CL_PCT,
    CL_PREEMPT,
    CL_STEPLIMIT,
    CL_CONFIG_WHILE_RUNNING,
    CL_NO_STOP,
    CL_FINE,
    CL_MIXED_SIZES,
    CL_OPEN_REFUSED,
    CL_ABORT_WHILE_OTHER_IN_STOP,
    CL_REAL_CAMERA,
    CL_DOUBLE_MAP_REFUSED,
    CL_LATE_UNMAP,
    CL_BIG_FRAMES,
};

const VhSpec kSpec = {
    "rt",
    kKinds,
    K_COUNT,
    70,
    { "C04", "C05", "C06", "C07", "C08", "C09", "C10", "C02", "C03", nullptr },
    { "acquisition_completed", "two_acquisitions", "two_streams", "ring_wrapped_3x", "sink_caught_up_at_wrap", "source_blocked_on_full_ring",
      "monitor_lagging", "write_delay", "image_bytes_not_multiple_of_8", "packet_right_after_wrap", "partial_consume", "monitor_used",
      "monitor_first_used_in_later_acquisition", "client_holds_region", "abort", "abort_while_worker_blocked", "abort_while_client_mapped",
      "abort_from_other_thread", "trigger_mode", "averaging", "averaging_2_windows", "fault_camera_frame", "fault_storage_append", "fault_start",
      "fault_fired", "fault_while_source_blocked", "shutdown_reinit", "start_while_running", "device_switch", "stream_toggled", "camera_no_frame_returns",
      "hardware_id_gaps", "pct_schedule", "preemptions", "step_limit_inconclusive", "configure_while_running", "poll_then_continue_without_stop", "edge_preemptions", "frame_sizes_vary_within_acquisition", "device_open_refused_during_configure", "abort_from_other_thread_while_first_is_inside_stop", "shipped_simulated_camera", "client_maps_twice_without_unmap_refused", "client_unmaps_late_after_abort", "frames_larger_than_16MiB", nullptr },
    { "C04 non-trivial: a finite acquisition completed with >=3 wraps of the sink ring AND (sink caught up at a wrap, or source blocked on a full ring, or a monitor lagging >= 1 frame, or write delay > 0)",
      "C05 non-trivial: image bytes % 8 != 0 AND a packet starting right after a wrap or after a partial client consume",
      "C06 non-trivial: >=2 acquisitions AND the monitor registered AND (partial consume, or hold while the ring filled, or first registration in a later acquisition)",
      "C07 non-trivial: abort issued while a worker fiber was blocked (ring full, trigger wait) or while the client held a mapping",
      "C08 non-trivial: >=2 acquisitions AND (a device switch, or start-while-running, or a stream disabled/enabled between runs)",
      "C09 non-trivial: an injected device fault fired while the source was blocked on a full ring, or after >=1 wrap",
      "C10 non-trivial: >=2 complete averaging windows AND >=1 wrap of the sink ring",
      "C02 (integration part) non-trivial: a consumer held a region while the source kept writing: the monitoring client slept on a mapped region, or the storage device spent time inside append",
      "C03 (integration part) non-trivial: the source thread was seen asleep inside channel_write_map (ring full) and the acquisition was then ended by stop, abort or a device fault",
      nullptr },
};

struct StreamCfg
{
    bool enabled = false;
    int cam = 0, store = 0;
    uint32_t w = 4, h = 3;
    SampleType type = SampleType_u8;
    int nframes = 5; // <0: infinite
    int huge = 0;    // with nframes < 0: 1 = 2^32 + 3 frames requested, 2 = 2^40 + 1 (finite, but never reached in a case)
    uint32_t period_us = 1000;
    bool trigger = false;
    int noframe_every = 0, gap_every = 0;
    int vary = 0; // frame widths shrink by 0..vary pixels from frame to frame (only without averaging)
    int avg = 0;
    float write_delay_ms = 0, store_delay_ms = 0;
    int fault_site = 0; // 0 none, 1 camera frame, 2 storage append, 3 storage start, 4 camera start
    int fault_index = 0;
    int open_fault = 0; // 1: the camera, 2: the storage device cannot be opened at the next configure (one shot)
};

struct Op
{
    int kind;
    VhTok t;
    StreamCfg cfg[2]; // configuration in force for CONFIGURE / RUN
};

// what the harness expects for one started acquisition of one stream
struct AcqRec
{
    int stream;
    StreamCfg cfg;
    int cam_run = -1, store_run = -1;
    vmock::Instance* cam = nullptr;
    vmock::Instance* store = nullptr;
    bool ended_by_abort = false;
    bool fault_expected = false;
    bool stopped = false;
    bool start_failed = false;
    uint64_t wraps = 0;
};

struct Mon
{
    bool registered = false;
    bool mapped = false;
    VideoFrame* beg = nullptr;
    VideoFrame* end = nullptr;
    std::vector<size_t> frame_sizes; // of the mapped region
    std::vector<uint8_t> held;       // copy of the mapped bytes (zero-copy consumers must not see them change)
    bool known = false;
    uint64_t next_id = 0;   // next frame id expected (valid when known)
    int acq_seen = -1;      // acquisition index the cursor belongs to
    uint64_t frames_seen = 0;
};

struct Ring
{
    struct channel* ch = nullptr; // diagnostics only
    uint8_t* base = nullptr;
    size_t cap = 0;
    uintptr_t last_addr = 0;
    uint64_t wraps = 0;
};

struct Ctx
{
    VhCase c;
    std::vector<Op> ops;
    vsim::TapeSched sched;
    AcquireRuntime* rt = nullptr;
    const DeviceManager* dm = nullptr;
    int f_client = -1, f_other = -1;
    bool client_done = false, other_done = true;
    bool in_stop_or_abort = false;
    bool in_stop_now = false;
    size_t lap_origin = 0;
    unsigned double_map_attempts = 0;
    unsigned late_unmaps = 0; // client 1 is inside a plain acquire_stop that waits for the acquisition to complete
    // configuration
    StreamCfg cur[2];           // as decoded so far (tokens)
    StreamCfg applied[2];       // last successfully configured
    bool configured = false;
    bool running = false;       // between a successful acquire_start and the return of stop/abort
    int acq_index = -1;         // index of the current / last acquisition (all streams)
    std::vector<AcqRec> acqs;   // one per (acquisition, stream)
    std::vector<size_t> cur_acqs;
    Mon mon[2];
    Ring ring_sink[2], ring_filter[2];
    double sink_factor = 2.5, filter_factor = 2.5;
    bool big_frames = false; // some acquisition of this case has frames of more than 16 MiB
    size_t max_frame_bytes[2] = { 0, 0 };     // over the whole tape (raw frames)
    size_t max_avg_frame_bytes[2] = { 0, 0 }; // f32 frames
    int channel_new_calls = 0;
    int abort_other_delay = 0;
    bool abort_other_requested = false;
    bool aborted_current = false;
    bool mon_disabled[2] = { false, false }; // per stream: not judged until a real stop that covers the stream
    bool tier_b = false; // a configure-while-running happened in this case
    bool disrupted = false; // a refused start-while-running stopped the cameras of the running acquisition
    int started_acqs = 0;
    bool prev_enabled[2] = { false, false };
    int prev_cam[2] = { -1, -1 }, prev_store[2] = { -1, -1 };
    bool any_fault_in_case = false;
    int client_style = 0; // how the polling client consumes: 0 everything, 1 all but the last frame, 2 one frame at a time, 3 every other poll
    int mon_polls[2] = { 0, 0 };
    const char* taint = "C04"; // on whose behalf complete acquisitions are judged: C09 after a fault, C07 after an abort
};

Ctx* g = nullptr;
const char* leftover_prop(Ctx& x);

void
reporter(int, const char*, int, const char*, const char*)
{
}

size_t
frame_bytes(uint32_t w, uint32_t h, SampleType t)
{
    size_t n = sizeof(VideoFrame) + (size_t)w * h * vmock::bpp(t);
    return 8 * ((n + 7) / 8);
}

const char*
tyname(SampleType t)
{
    return sample_type_as_string(t);
}

// ---- expected frames ------------------------------------------------------------------------------

std::vector<vmock::Delivered>
delivered_of(vmock::Instance* cam, int run)
{
    std::vector<vmock::Delivered> v;
    if (cam)
        for (auto& d : cam->delivered)
            if (d.run == run)
                v.push_back(d);
    return v;
}

// Walks a packet of frames [beg, beg+n) and checks the C05 structure; for non-averaged streams also
// shape and identity against what the camera delivered.  Appends (run,k) stamps to out_ids.
// `who`: "storage" or "monitor".
bool
walk_packet(Ctx& x, const char* who, int stream, const uint8_t* beg, size_t n, bool averaged, std::vector<const VideoFrame*>* frames_out)
{
    if (((uintptr_t)beg) % 8 != 0)
        return (x.c.fail_soft("C05", "packet-alignment", who, "stream %d: %s packet starts at address %p which is not 8-byte aligned", stream, who, (const void*)beg), true);
    size_t off = 0;
    while (off < n) {
        if (n - off < sizeof(VideoFrame))
            return (x.c.fail_soft("C05", "packet-truncated", who, "stream %d: %s packet of %zu bytes ends %zu bytes into a frame header", stream, who, n, n - off), true);
        const VideoFrame* f = (const VideoFrame*)(beg + off);
        size_t img = (size_t)f->shape.strides.planes * vmock::bpp(f->shape.type);
        size_t want = 8 * ((sizeof(VideoFrame) + img + 7) / 8);
        if (f->bytes_of_frame != want)
            return (x.c.fail_soft("C05", "frame-size-field", who, "stream %d: %s frame at packet offset %zu (frame id %llu) has bytes_of_frame %zu; header + %zu image bytes rounded up to 8 is %zu",
                                 stream, who, off, (unsigned long long)f->frame_id, (size_t)f->bytes_of_frame, img, want), true);
        if (f->bytes_of_frame > n - off)
            return (x.c.fail_soft("C05", "frame-overruns-packet", who, "stream %d: %s frame at offset %zu of %zu bytes overruns the %zu-byte packet", stream, who, off,
                                 (size_t)f->bytes_of_frame, n), true);
        if (!averaged) {
            int cam = (int)(f->timestamps.hardware >> 56) - 1;
            int run = (int)((f->timestamps.hardware >> 32) & 0xffffff);
            uint64_t k = f->timestamps.hardware & 0xffffffffu;
            vmock::Instance* ci = cam >= 0 && cam < 4 ? vmock::last_camera(cam) : nullptr;
            const vmock::Delivered* d = nullptr;
            // the camera instance that delivered this frame (instances of one index share run numbering)
            for (vmock::Instance* i : vmock::hub.instances)
                if (i->is_cam && i->idx == cam)
                    for (auto& dd : i->delivered)
                        if (dd.run == run && dd.k == k)
                            d = &dd;
            (void)ci;
            if (!d)
                return (x.c.fail_soft("C05", "frame-unknown", who, "stream %d: %s frame at offset %zu does not identify a frame any camera delivered (stamp %llx)", stream, who,
                                     off, (unsigned long long)f->timestamps.hardware), true);
            if (memcmp(&f->shape, &d->shape, sizeof(ImageShape)) != 0)
                return (x.c.fail_soft("C05", "frame-shape", who, "stream %d: %s frame id %llu carries shape %ux%u type %d; the camera reported %ux%u type %d for it", stream, who,
                                     (unsigned long long)f->frame_id, f->shape.dims.width, f->shape.dims.height, (int)f->shape.type, d->shape.dims.width,
                                     d->shape.dims.height, (int)d->shape.type), true);
        }
        if (frames_out)
            frames_out->push_back(f);
        off += f->bytes_of_frame;
    }
    return false;
}

void
on_append_hook(vmock::Instance* st, const VideoFrame* frames, size_t n)
{
    Ctx& x = *g;
    if (x.c.ended)
        return;
    // which stream does this storage serve right now?
    int stream = -1;
    bool averaged = false;
    for (size_t ai : x.cur_acqs)
        if (x.acqs[ai].cfg.store == st->idx) { // (instances are bound only after acquire_start returned)
            stream = x.acqs[ai].stream;
            averaged = x.acqs[ai].cfg.avg >= 2;
        }
    // ring bookkeeping: wraps of the sink ring seen through packet addresses
    if (stream >= 0) {
        Ring& r = x.ring_sink[stream];
        uintptr_t a = (uintptr_t)frames;
        if (r.base && a >= (uintptr_t)r.base && a < (uintptr_t)r.base + r.cap) {
            if (r.last_addr && a < r.last_addr) {
                r.wraps++;
                for (size_t ai : x.cur_acqs)
                    if (x.acqs[ai].stream == stream)
                        x.acqs[ai].wraps++;
                const VideoFrame* f0 = frames;
                if ((size_t)f0->shape.strides.planes * vmock::bpp(f0->shape.type) % 8)
                    x.c.cls(CL_PACKET_AFTER_WRAP), x.c.nontrivial(P_C05);
                if (r.wraps >= 3)
                    x.c.cls(CL_WRAPS3);
                // the sink had consumed everything the camera had delivered when the writer wrapped
                vmock::Instance* cam = nullptr;
                for (size_t ai : x.cur_acqs)
                    if (x.acqs[ai].stream == stream)
                        cam = vmock::live_camera(x.acqs[ai].cfg.cam);
                if (cam && f0->bytes_of_frame == n && cam->k == f0->frame_id + 1)
                    x.c.cls(CL_SINK_CAUGHT_UP_AT_WRAP);
            }
            r.last_addr = a;
        } else if (r.base) {
            x.c.fail_soft("C05", "packet-outside-ring", "storage", "stream %d: storage was handed memory outside the stream's ring buffer", stream);
            return;
        }
    }
    if (stream >= 0) {
        bool trig = false;
        for (size_t ai : x.cur_acqs)
            trig |= x.acqs[ai].cfg.trigger;
        if (!trig)
            for (int f = 0; f < vsim::nfibers(); ++f)
                if (f != x.f_client && f != x.f_other && f != vsim::current() && vsim::info(f).st == vsim::BLK_COND) {
                    x.c.cls(CL_SOURCE_BLOCKED); // a worker sleeps inside channel_write_map: the ring is full
                    x.c.nontrivial(P_C03);
                    for (size_t ai : x.cur_acqs)
                        if (x.acqs[ai].stream == stream && x.acqs[ai].cfg.fault_site)
                            x.c.cls(CL_FAULT_WHILE_BLOCKED), x.c.nontrivial(P_C09);
                }
    }
    walk_packet(x, "storage", stream, (const uint8_t*)frames, n, averaged, nullptr);
}

// ---- oracles on a finished acquisition ------------------------------------------------------------

// Compares what storage received in one run with what the camera delivered (C04 when complete,
// prefix when aborted / faulted).  `prop` is the property on whose behalf the comparison is made.
void
check_storage_vs_camera(Ctx& x, AcqRec& a, const char* prop, bool expect_complete, bool prefix_only)
{
    if (x.c.ended || !a.store || !a.cam || a.cfg.avg >= 2)
        return;
    // a complete, fault-free finite acquisition owes C04 whatever happened before it (an earlier abort or
    // device fault makes it C07's / C09's "later acquisition" as well): in runs made for C04 it counts for C04
    if (expect_complete && !prefix_only && !a.fault_expected && !a.ended_by_abort && vh_focus && !strcmp(vh_focus, "C04"))
        prop = "C04";
    std::vector<vmock::Delivered> del = delivered_of(a.cam, a.cam_run);
    auto it = a.store->bytes_by_run.find(a.store_run);
    static const std::vector<uint8_t> none;
    const std::vector<uint8_t>& b = it == a.store->bytes_by_run.end() ? none : it->second;
    size_t off = 0, i = 0;
    while (off < b.size()) {
        if (b.size() - off < sizeof(VideoFrame)) {
            x.c.fail_soft(prop, "storage-stream-truncated", "tail", "stream %d: storage input ends inside a frame header", a.stream);
            return;
        }
        const VideoFrame* f = (const VideoFrame*)(b.data() + off);
        if (f->bytes_of_frame < sizeof(VideoFrame) || f->bytes_of_frame > b.size() - off) {
            x.c.fail_soft(prop, "storage-stream-broken", "size", "stream %d: frame %zu in storage input has an impossible size field %zu", a.stream, i, (size_t)f->bytes_of_frame);
            return;
        }
        if (i >= del.size()) {
            x.c.fail_soft(prop, "extra-frame", "more-than-delivered", "stream %d: storage received %zu+ frames, the camera delivered %zu in this acquisition (frame id %llu, stamp %llx)",
                          a.stream, i + 1, del.size(), (unsigned long long)f->frame_id, (unsigned long long)f->timestamps.hardware);
            return;
        }
        const vmock::Delivered& d = del[i];
        uint64_t want_stamp = vmock::stamp(a.cam->idx, a.cam_run, d.k);
        if (f->timestamps.hardware != want_stamp) {
            int fr = (int)((f->timestamps.hardware >> 32) & 0xffffff);
            uint64_t fk = f->timestamps.hardware & 0xffffffffu;
            int fc = (int)(f->timestamps.hardware >> 56) - 1;
            const char* disc = fc != a.cam->idx ? "other-stream" : fr != a.cam_run ? "other-acquisition" : fk > d.k ? "gap" : "repeat";
            x.c.fail_soft(prop, "wrong-frame", disc,
                          "stream %d: storage frame #%zu is camera %d run %d frame %llu; expected camera %d run %d frame %llu (%s)", a.stream, i, fc, fr,
                          (unsigned long long)fk, a.cam->idx, a.cam_run, (unsigned long long)d.k, disc);
            return;
        }
        if (f->frame_id != d.k || f->hardware_frame_id != d.hw_id) {
            x.c.fail_soft(prop, "frame-ids", "mismatch", "stream %d: storage frame #%zu has frame_id %llu hardware_frame_id %llu; expected %llu and %llu", a.stream, i,
                          (unsigned long long)f->frame_id, (unsigned long long)f->hardware_frame_id, (unsigned long long)d.k, (unsigned long long)d.hw_id);
            return;
        }
        if (memcmp(&f->shape, &d.shape, sizeof(ImageShape)) != 0) {
            x.c.fail_soft(prop, "frame-shape", "mismatch", "stream %d: storage frame #%zu shape differs from what the camera reported", a.stream, i);
            return;
        }
        size_t img = (size_t)d.shape.strides.planes * vmock::bpp(d.shape.type);
        vmock::Expected ex = vmock::expected_pixels(a.cam->idx, a.cam_run, d.k);
        for (size_t j = 0; j < img; ++j)
            if (f->data[j] != ex.at(j)) {
                x.c.fail_soft(prop, "pixels", "altered", "stream %d: storage frame #%zu pixel byte %zu differs from what the camera delivered", a.stream, i, j);
                return;
            }
        off += f->bytes_of_frame;
        ++i;
    }
    if (expect_complete && i != del.size()) {
        x.c.fail_soft(prop, "missing-frames", i < del.size() ? "tail-lost" : "?", "stream %d: the camera delivered %zu frames, storage received only the first %zu", a.stream, del.size(), i);
        return;
    }
    if (expect_complete && a.cfg.nframes >= 0 && (int)del.size() != a.cfg.nframes) {
        x.c.fail_soft(prop, "frame-count", "delivered", "stream %d: a finite acquisition of %d frames ended after the camera delivered %zu", a.stream, a.cfg.nframes, del.size());
        return;
    }
    (void)prefix_only;
}

// Averaged streams (C10): storage must hold one f32 frame per complete window of k camera frames.
void
check_averaging(Ctx& x, AcqRec& a, bool complete)
{
    if (x.c.ended || !a.store || !a.cam || a.cfg.avg < 2)
        return;
    int kwin = a.cfg.avg;
    std::vector<vmock::Delivered> del = delivered_of(a.cam, a.cam_run);
    auto it = a.store->bytes_by_run.find(a.store_run);
    static const std::vector<uint8_t> none;
    const std::vector<uint8_t>& b = it == a.store->bytes_by_run.end() ? none : it->second;
    size_t nwin = del.size() / kwin;
    size_t off = 0, w = 0;
    while (off < b.size()) {
        const VideoFrame* f = (const VideoFrame*)(b.data() + off);
        if (b.size() - off < sizeof(VideoFrame) || f->bytes_of_frame < sizeof(VideoFrame) || f->bytes_of_frame > b.size() - off) {
            x.c.fail_soft("C10", "storage-stream-broken", "size", "stream %d: averaged frame %zu in storage input has an impossible size", a.stream, w);
            return;
        }
        if (w >= nwin) {
            // at most one extra frame for a trailing incomplete window; its pixels are not judged
            if (w == nwin && del.size() % kwin != 0 && off + f->bytes_of_frame == b.size()) {
                off += f->bytes_of_frame;
                ++w;
                continue;
            }
            x.c.fail_soft("C10", "extra-frame", "beyond-windows", "stream %d: storage received averaged frame #%zu but %zu camera frames make only %zu windows of %d", a.stream, w,
                          del.size(), nwin, kwin);
            return;
        }
        const vmock::Delivered& d0 = del[w * kwin];
        if (f->shape.type != SampleType_f32 || f->shape.dims.width != d0.shape.dims.width || f->shape.dims.height != d0.shape.dims.height) {
            x.c.fail_soft("C10", "avg-shape", "mismatch", "stream %d: averaged frame #%zu is %ux%u type %d; expected %ux%u f32", a.stream, w, f->shape.dims.width,
                          f->shape.dims.height, (int)f->shape.type, d0.shape.dims.width, d0.shape.dims.height);
            return;
        }
        if (f->frame_id != d0.k) {
            x.c.fail_soft("C10", "avg-frame-id", f->frame_id > d0.k ? "late" : "early", "stream %d: averaged frame #%zu has frame_id %llu; its window starts at camera frame %llu",
                          a.stream, w, (unsigned long long)f->frame_id, (unsigned long long)d0.k);
            return;
        }
        size_t npx = (size_t)d0.shape.strides.planes;
        const float* px = (const float*)f->data;
        size_t bp = vmock::bpp(d0.shape.type);
        for (size_t p = 0; p < npx; ++p) {
            double sum = 0;
            for (int q = 0; q < kwin; ++q) {
                const vmock::Delivered& d = del[w * kwin + q];
                uint8_t raw[2] = { vmock::prf(vmock::hub.salt, a.cam->idx, a.cam_run, d.k, p * bp),
                                   bp > 1 ? vmock::prf(vmock::hub.salt, a.cam->idx, a.cam_run, d.k, p * bp + 1) : (uint8_t)0 };
                double v;
                switch (d0.shape.type) {
                    case SampleType_u8: v = raw[0]; break;
                    case SampleType_i8: v = (int8_t)raw[0]; break;
                    case SampleType_i16: v = (int16_t)(raw[0] | (raw[1] << 8)); break;
                    default: v = (uint16_t)(raw[0] | (raw[1] << 8)); break;
                }
                sum += v;
            }
            double mean = sum / kwin;
            double tol = std::fabs(mean) * 4e-7 + 1e-4; // ~2-3 ulp of float at this magnitude
            if (!(std::fabs((double)px[p] - mean) <= tol)) {
                char inputs[160] = { 0 };
                for (int q = 0; q < kwin && q < 8; ++q) {
                    const vmock::Delivered& d = del[w * kwin + q];
                    size_t l = strlen(inputs);
                    snprintf(inputs + l, sizeof inputs - l, "%s%u", q ? "," : "", (unsigned)vmock::prf(vmock::hub.salt, a.cam->idx, a.cam_run, d.k, p * bp));
                }
                x.c.fail_soft("C10", "avg-pixel", "wrong-mean", "stream %d: averaged frame #%zu (frame_id %llu) pixel %zu is %.9g; the mean of the %d input pixels is %.9g (first bytes of the inputs: %s)",
                              a.stream, w, (unsigned long long)f->frame_id, p, (double)px[p], kwin, mean, inputs);
                return;
            }
        }
        off += f->bytes_of_frame;
        ++w;
    }
    if (nwin >= 2) {
        x.c.cls(CL_AVG_2WINDOWS);
        if (a.wraps >= 1)
            x.c.nontrivial(P_C10);
    }
    if (complete && w < nwin) {
        x.c.fail_soft("C10", "missing-window", "tail-lost", "stream %d: %zu camera frames make %zu complete windows of %d, storage received only %zu averaged frames", a.stream,
                      del.size(), nwin, kwin, w);
        return;
    }
}

// ---- client operations (run in the client fiber) -----------------------------------------------------

// A stop / abort that never returns (or a dead-locked runtime) is C07's subject, C09's after a device
// fault -- and in runs made for C08 it counts for C08: the devices are then never stopped and never
// closed, and the runtime never reports Armed.
const char*
hang_prop(Ctx& x)
{
    // (not after a configure-while-running: the harness' own tier-B programs can stall an acquisition by
    // design, e.g. by switching to trigger mode mid-run and then waiting in acquire_stop)
    if (vh_focus && ((!strcmp(vh_focus, "C08") && !x.tier_b) || !strcmp(vh_focus, "C03")))
        return vh_focus; // C03 (integration part): a writer blocked in channel_write_map that is never released
    return x.any_fault_in_case ? "C09" : "C07";
}

bool
uses_real_camera(const StreamCfg cfg[2])
{
    return (cfg[0].enabled && cfg[0].cam >= 2) || (cfg[1].enabled && cfg[1].cam >= 2);
}

bool
workers_alive(Ctx& x)
{
    for (int f = 0; f < vsim::nfibers(); ++f)
        if (f != x.f_client && f != x.f_other && vsim::info(f).st != vsim::DONE && vsim::info(f).st != vsim::FREE)
            return true;
    return false;
}

void
apply_scripts(Ctx& x, const StreamCfg cfg[2])
{
    for (int s = 0; s < 2; ++s) {
        const StreamCfg& c = cfg[s];
        if (!c.enabled)
            continue;
        vmock::CamScript& cs = vmock::hub.cam_script[c.cam];
        cs = vmock::CamScript();
        cs.period_us = c.period_us;
        cs.noframe_every = c.noframe_every;
        cs.gap_every = c.gap_every;
        cs.vary = c.avg ? 0 : c.vary;
        cs.stop_yields = (c.period_us / 100) % 2 == 1 || c.period_us == 0; // a stop that takes a while (scheduling point inside)
        cs.stop_ms = (c.w + c.nframes) % 2 ? 25.0f : 5.0f;                  // ... longer than the sink's 10 ms polling period, or shorter
        vmock::StoreScript& ss = vmock::hub.store_script[c.store];
        ss = vmock::StoreScript();
        ss.delay_ms = c.store_delay_ms;
        ss.stop_yields = (c.w + c.h) % 2 == 0;
        if (c.fault_site == 1)
            cs.fail_at = c.fault_index;
        if (c.fault_site == 2)
            ss.fail_at = c.fault_index;
        if (c.fault_site == 3)
            ss.fail_start = true;
        if (c.fault_site == 4)
            cs.fail_start = true;
    }
}

void
do_configure(Ctx& x, const StreamCfg cfg_in[2])
{
    StreamCfg cfg[2] = { cfg_in[0], cfg_in[1] };
    for (int s = 0; s < 2; ++s) {
        StreamCfg& c = cfg[s];
        if (c.cam >= 2) {
            // the shipped simulated cameras: no scripted pacing features; the exposure is the period; the
            // averaging oracle needs the PRF cameras
            if (c.avg >= 2)
                c.cam &= 1;
            else {
                c.noframe_every = c.gap_every = c.vary = 0;
                if (c.period_us < 200)
                    c.period_us = 200;
            }
        }
    }
    // two streams never share a device
    if (cfg[0].enabled && cfg[1].enabled) {
        if (cfg[1].cam == cfg[0].cam)
            cfg[1].cam = cfg[0].cam ^ 1;
        if (cfg[1].cam >= 2 && cfg[1].avg >= 2)
            cfg[1].cam &= 1; // (cfg[0] then uses a real camera: no clash)
        if (cfg[1].store == cfg[0].store)
            cfg[1].store = 1 - cfg[0].store;
    }
    if (!cfg[0].enabled && !cfg[1].enabled)
        cfg[0].enabled = true;
    AcquireProperties props;
    memset(&props, 0, sizeof props);
    acquire_get_configuration(x.rt, &props);
    for (int s = 0; s < 2; ++s) {
        const StreamCfg& c = cfg[s];
        auto& v = props.video[s];
        if (!c.enabled) {
            memset(&v.camera.identifier, 0, sizeof v.camera.identifier);
            memset(&v.storage.identifier, 0, sizeof v.storage.identifier);
            v.camera.identifier.kind = DeviceKind_None;
            v.storage.identifier.kind = DeviceKind_None;
            continue;
        }
        char name[16];
        snprintf(name, sizeof name, c.cam < 2 ? "vcam%d" : "vreal%d", c.cam & 1);
        device_manager_select(x.dm, DeviceKind_Camera, name, strlen(name), &v.camera.identifier);
        snprintf(name, sizeof name, "vstore%d", c.store);
        device_manager_select(x.dm, DeviceKind_Storage, name, strlen(name), &v.storage.identifier);
        memset(&v.camera.settings, 0, sizeof v.camera.settings);
        v.camera.settings.binning = 1;
        v.camera.settings.pixel_type = c.type;
        v.camera.settings.shape.x = c.w;
        v.camera.settings.shape.y = c.h;
        v.camera.settings.exposure_time_us = (float)c.period_us;
        v.camera.settings.input_triggers.frame_start.enable = c.trigger;
        memset(&v.storage.settings, 0, sizeof v.storage.settings);
        v.storage.write_delay_ms = c.write_delay_ms;
        v.max_frame_count = c.nframes >= 0 ? (uint64_t)c.nframes : c.huge == 1 ? (1ull << 32) + 3 : c.huge == 2 ? (1ull << 40) + 1 : (uint64_t)-1;
        v.frame_average_count = (uint32_t)c.avg;
    }
    x.c.trace("client: CONFIGURE  s0=%s cam%d->store%d %ux%u %s n=%d avg=%d period=%uus trig=%d wdelay=%g sdelay=%g fault=%d@%d | s1=%s cam%d->store%d %ux%u %s n=%d avg=%d",
              cfg[0].enabled ? "on" : "off", cfg[0].cam, cfg[0].store, cfg[0].w, cfg[0].h, tyname(cfg[0].type), cfg[0].nframes, cfg[0].avg, cfg[0].period_us,
              cfg[0].trigger, cfg[0].write_delay_ms, cfg[0].store_delay_ms, cfg[0].fault_site, cfg[0].fault_index, cfg[1].enabled ? "on" : "off", cfg[1].cam,
              cfg[1].store, cfg[1].w, cfg[1].h, tyname(cfg[1].type), cfg[1].nframes, cfg[1].avg);
    if (x.running)
        x.c.cls(CL_CONFIG_WHILE_RUNNING);
    for (int s = 0; s < 2; ++s)
        if (cfg[s].enabled && cfg[s].open_fault && !x.running)
            vmock::hub.refuse_open[cfg[s].open_fault == 1 ? (cfg[s].cam < 2 ? cfg[s].cam : 2 + cfg[s].cam) : 2 + cfg[s].store] = true;
    int refused_before = vmock::hub.opens_refused;
    AcquireStatusCode r = acquire_configure(x.rt, &props);
    for (bool& b : vmock::hub.refuse_open)
        b = false;
    if (vmock::hub.opens_refused > refused_before) {
        x.c.cls(CL_OPEN_REFUSED);
        x.c.trace("    (a device open was refused during this configure)");
        if (x.started_acqs >= 1)
            x.c.nontrivial(P_C08);
    }
    if (r != AcquireStatus_Ok) {
        x.c.trace("    -> configure failed");
        x.configured = false;
        vmock::check_released("failed configure");
        return;
    }
    if (vmock::hub.opens_refused > refused_before && !x.running) {
        // A stream that cannot be configured is left out: the call itself reports Ok (acquire.c); when it was
        // the only stream the runtime awaits configuration, when the other stream is fine the runtime is Armed
        // with that one alone.  Either way this client configures again before it starts anything (the model
        // has no notion of "requested but not valid": judging the left-out stream as if it ran was a false alarm).
        x.c.trace("    -> configure left the runtime in state %s", device_state_as_string(acquire_get_state(x.rt)));
        x.configured = false;
        vmock::check_released("configure with a refused open");
        return;
    }
    x.configured = true;
    for (int s = 0; s < 2; ++s)
        x.applied[s] = cfg[s];
    vmock::check_released("configure");
}

void
drain_monitor(Ctx& x, int s);

void
do_start(Ctx& x)
{
    if (!x.configured || x.c.ended)
        return;
    if (x.running) {
        // start while running: the runtime must refuse (the shipped repeat-start-no-stop test expects
        // AcquireStatus_Error).  Its error path stops the cameras, so the acquisition in progress
        // winds down early: from here on it is judged like an aborted one.
        // Only where the running acquisition cannot end by itself in the meantime (infinite, or waiting
        // for triggers, and no scripted fault): otherwise the second start may legitimately succeed.
        for (size_t ai : x.cur_acqs) {
            const AcqRec& a = x.acqs[ai];
            if (a.cfg.fault_site || !(a.cfg.nframes < 0 || a.cfg.trigger))
                return;
        }
        if (x.aborted_current || !x.other_done || x.disrupted)
            return; // (after one refused start the acquisition is already winding down)
        x.c.cls(CL_START_WHILE_RUNNING);
        if (x.started_acqs >= 1)
            x.c.nontrivial(P_C08);
        x.c.trace("client: START while running");
        AcquireStatusCode r2 = acquire_start(x.rt);
        if (r2 == AcquireStatus_Ok)
            x.c.fail_soft("C08", "start-while-running-accepted", "ok", "acquire_start succeeded although an acquisition was running");
        x.disrupted = true;
        x.configured = false;
        return;
    }
    apply_scripts(x, x.applied);
    x.acq_index++;
    x.cur_acqs.clear();
    x.aborted_current = false;
    int nstreams = 0;
    for (int s = 0; s < 2; ++s)
        if (x.applied[s].enabled) {
            AcqRec a;
            a.stream = s;
            a.cfg = x.applied[s];
            a.cam_run = vmock::hub.cam_runs[a.cfg.cam];
            a.store_run = vmock::hub.store_runs[a.cfg.store];
            a.fault_expected = a.cfg.fault_site != 0;
            x.acqs.push_back(a);
            x.cur_acqs.push_back(x.acqs.size() - 1);
            nstreams++;
            if (a.cfg.avg >= 2)
                x.c.cls(CL_AVG);
            if (a.cfg.trigger)
                x.c.cls(CL_TRIGGER_MODE);
            if (a.cfg.write_delay_ms > 0)
                x.c.cls(CL_WRITE_DELAY);
            if (((size_t)a.cfg.w * a.cfg.h * vmock::bpp(a.cfg.type)) % 8)
                x.c.cls(CL_ODD_IMAGE_BYTES);
            if (a.cfg.noframe_every)
                x.c.cls(CL_NOFRAME);
            if (a.cfg.gap_every)
                x.c.cls(CL_HWGAP);
            if (a.cfg.vary && !a.cfg.avg && a.cfg.w > 1)
                x.c.cls(CL_MIXED_SIZES);
            if (a.cfg.cam >= 2)
                x.c.cls(CL_REAL_CAMERA);
            if (a.cfg.fault_site) {
                x.any_fault_in_case = true;
                x.c.cls(a.cfg.fault_site == 1 ? CL_FAULT_CAMERA : a.cfg.fault_site == 2 ? CL_FAULT_STORAGE : CL_FAULT_START);
            }
            if (x.started_acqs > 0) {
                if (x.prev_cam[s] >= 0 && (x.prev_cam[s] != a.cfg.cam || x.prev_store[s] != a.cfg.store))
                    x.c.cls(CL_DEVICE_SWITCH), x.c.nontrivial(P_C08);
                if (!x.prev_enabled[s])
                    x.c.cls(CL_STREAM_TOGGLED), x.c.nontrivial(P_C08);
            }
        } else if (x.started_acqs > 0 && x.prev_enabled[s])
            x.c.cls(CL_STREAM_TOGGLED), x.c.nontrivial(P_C08);
    if (nstreams == 2)
        x.c.cls(CL_TWO_STREAMS);
    x.c.trace("client: START (acquisition %d)", x.acq_index);
    for (int s = 0; s < 2; ++s) {
        x.ring_sink[s].last_addr = 0;
    }
    AcquireStatusCode r = acquire_start(x.rt);
    // bind device instances
    for (size_t ai : x.cur_acqs) {
        AcqRec& a = x.acqs[ai];
        // (by the run number the start consumed, not "the latest live instance of that index": a stream that is
        // switched off keeps its device open, so two live instances of one device index can exist)
        a.cam = nullptr;
        a.store = nullptr;
        for (vmock::Instance* i : vmock::hub.instances) {
            if (i->closed)
                continue;
            if (i->is_cam && i->idx == a.cfg.cam && i->run == a.cam_run && i->starts)
                a.cam = i;
            if (!i->is_cam && i->idx == a.cfg.store && i->run == a.store_run && i->starts)
                a.store = i;
        }
        if (!a.cam)
            a.cam = vmock::live_camera(a.cfg.cam);
        if (!a.store)
            a.store = vmock::live_storage(a.cfg.store);
    }
    if (r != AcquireStatus_Ok) {
        x.c.trace("    -> start failed");
        bool expected = false;
        for (size_t ai : x.cur_acqs)
            expected |= x.acqs[ai].cfg.fault_site >= 3;
        if (!expected)
            x.c.fail_soft("C04", "start-failed", "no-fault", "acquire_start failed although no device fault was scripted");
        else
            x.c.cls(CL_FAULT_FIRED);
        // the runtime is back in AwaitingConfiguration; workers that were started wind down on abort
        for (size_t ai : x.cur_acqs)
            x.acqs[ai].start_failed = true;
        x.running = true; // some workers may have been started: the client still has to stop/abort
        x.configured = false;
        return;
    }
    x.running = true;
    for (int s = 0; s < 2; ++s) {
        x.prev_enabled[s] = x.applied[s].enabled;
        if (x.applied[s].enabled) {
            x.prev_cam[s] = x.applied[s].cam;
            x.prev_store[s] = x.applied[s].store;
        }
    }
    x.started_acqs++;
    if (x.started_acqs >= 2)
        x.c.cls(CL_TWO_ACQ);
}

// the monitor cursor of stream s after the acquisition ended (stop/abort returned)
void
monitor_after_end(Ctx& x)
{
    for (int s = 0; s < 2; ++s) {
        Mon& m = x.mon[s];
        m.known = false;
        if (m.mapped && x.rt && !x.c.ended && (++x.late_unmaps & 1)) {
            // the client did not know about the stop / abort (another thread, a GUI button) and now releases
            // the region it believes it still holds: after the flush this must be a no-op
            size_t bytes = 0;
            for (size_t fsz : m.frame_sizes)
                bytes += fsz;
            x.c.cls(CL_LATE_UNMAP);
            x.c.trace("client: UNMAP stream %d (late: the region was already released by stop/abort) %zu bytes", s, bytes);
            acquire_unmap_read(x.rt, (uint32_t)s, bytes);
        }
        m.mapped = false; // stop/abort flush the monitor
        m.held.clear();
        m.frame_sizes.clear();
    }
}

void
finish_acquisition(Ctx& x, bool by_abort, const char* how)
{
    // called after acquire_stop / acquire_abort returned
    x.running = false;
    // a real stop flushes (and rewinds) the streams that are enabled in this acquisition -- only those
    for (size_t ai : x.cur_acqs)
        x.mon_disabled[x.acqs[ai].stream] = false;
    if (x.disrupted) {
        by_abort = true;
        x.disrupted = false;
    }
    if (x.c.ended)
        return;
    DeviceState st = acquire_get_state(x.rt);
    if (st != DeviceState_Armed && x.configured)
        x.c.fail_soft(by_abort ? "C07" : "C08", "state-after-stop", device_state_as_string(st), "acquire_get_state is %s after %s returned (expected Armed)",
                      device_state_as_string(st), how);
    if (!x.c.ended && workers_alive(x))
        x.c.fail_soft(by_abort ? "C07" : "C08", "workers-alive-after-stop", how, "worker threads are still alive after %s returned", how);
    for (size_t ai : x.cur_acqs) {
        if (x.c.ended)
            break;
        AcqRec& a = x.acqs[ai];
        a.stopped = true;
        a.ended_by_abort = by_abort;
        bool fault = a.cfg.fault_site != 0;
        if (a.cam && !x.c.ended && a.cam->started && a.cam->run == a.cam_run)
            x.c.fail_soft(x.tier_b ? "C08" : fault ? "C09" : by_abort ? "C07" : "C08", x.tier_b ? "lifecycle" : "camera-not-stopped", x.tier_b ? vmock::hub.context : how, "stream %d: the camera is still started after %s returned", a.stream, how);
        if (a.store && !x.c.ended && a.store->started && a.store->run == a.store_run)
            x.c.fail_soft(x.tier_b ? "C08" : fault ? "C09" : by_abort ? "C07" : "C08", x.tier_b ? "lifecycle" : "storage-not-stopped", x.tier_b ? vmock::hub.context : how, "stream %d: the storage device is still started after %s returned", a.stream, how);
        if (x.c.ended)
            break;
        if (fault || a.start_failed) {
            x.taint = "C09";
            x.configured = false; // a failed device has to be configured again before the next start
        }
        if (a.start_failed)
            continue; // nothing was acquired: only the life-cycle checks above apply
        if (fault)
            x.taint = "C09";
        else if (by_abort && strcmp(x.taint, "C09"))
            x.taint = "C07";
        if (fault) {
            // C09: nothing appended after the failure; appended frames are a prefix of the delivered ones
            x.c.cls(CL_FAULT_FIRED);
            if (a.wraps >= 1)
                x.c.nontrivial(P_C09);
            if (a.store && a.store->appends_after_failure)
                x.c.fail_soft("C09", "append-after-failure", "storage", "stream %d: %d append(s) reached the storage device after its append had failed", a.stream,
                              a.store->appends_after_failure);
            if (a.cfg.avg < 2)
                check_storage_vs_camera(x, a, "C09", false, true);
        } else if (by_abort) {
            x.c.cls(CL_ABORT);
            if (a.cfg.avg >= 2)
                check_averaging(x, a, false);
            else
                check_storage_vs_camera(x, a, "C07", false, true);
        } else {
            x.c.cls(CL_ACQ_DONE);
            if (a.cfg.avg >= 2)
                check_averaging(x, a, true);
            else {
                // follow-up acquisitions after an abort / a fault are judged on behalf of C07 / C09 too
                // "its presence or pace never changes what reaches storage": with a monitor attached the
                // storage comparison is made on behalf of C06 in C06 runs
                const char* sp = (vh_focus && !strcmp(vh_focus, "C06") && x.mon[a.stream].registered && !strcmp(x.taint, "C04")) ? "C06" : x.taint;
                check_storage_vs_camera(x, a, sp, a.cfg.nframes >= 0, false);
                if (a.wraps >= 3 && (x.c.has(CL_SINK_CAUGHT_UP_AT_WRAP) || x.c.has(CL_SOURCE_BLOCKED) || x.c.has(CL_MONITOR_LAG) || a.cfg.write_delay_ms > 0))
                    x.c.nontrivial(P_C04);
            }
        }
    }
    monitor_after_end(x);
    vmock::check_released(how);
    // C06: once stop/abort has returned nothing of that acquisition is delivered later
    for (int s = 0; s < 2 && !x.c.ended; ++s)
        if (x.mon[s].registered) {
            VideoFrame *b = nullptr, *e = nullptr;
            AcquireStatusCode r = acquire_map_read(x.rt, (uint32_t)s, &b, &e);
            if (r != AcquireStatus_Ok)
                x.c.fail("C06", "map-fails-after-stop", how, "stream %d: acquire_map_read fails after %s returned", s, how);
            else {
                if (b != e)
                    x.c.fail(leftover_prop(x), "data-after-stop", how, "stream %d: acquire_map_read still returns %td bytes after %s returned", s, (uint8_t*)e - (uint8_t*)b, how);
                acquire_unmap_read(x.rt, (uint32_t)s, (size_t)((uint8_t*)e - (uint8_t*)b));
            }
        }
}

// Leftovers of an aborted acquisition that reach the monitoring client are C06 violations and, when
// the run is made on behalf of C07 ("no leftovers from the aborted one"), C07 violations.
const char*
leftover_prop(Ctx& x)
{
    return (vh_focus && !strcmp(vh_focus, "C07") && !strcmp(x.taint, "C07")) ? "C07" : "C06";
}

void
do_map(Ctx& x, int s)
{
    Mon& m = x.mon[s];
    if (x.c.ended || !x.rt)
        return;
    if (m.mapped) {
        // A second map without an unmap is a client error the runtime refuses; the refusal must change
        // nothing: the region stays valid, the next unmap / map behave as if it had not happened.
        if (!x.mon_disabled[s] && x.running && !m.frame_sizes.empty()) { // (an empty map leaves the reader unmapped)
            VideoFrame *b2 = nullptr, *e2 = nullptr;
            AcquireStatusCode r2 = acquire_map_read(x.rt, (uint32_t)s, &b2, &e2);
            x.c.cls(CL_DOUBLE_MAP_REFUSED);
            x.c.trace("client: MAP stream %d again without unmap -> %s", s, r2 == AcquireStatus_Ok ? "Ok" : "refused");
            if (r2 == AcquireStatus_Ok)
                x.c.fail("C06", "double-map-accepted", "ok", "stream %d: acquire_map_read succeeded although the client still holds a mapped region", s);
        }
        return;
    }
    if (x.mon_disabled[s]) {
        // monitoring is not judged until the next real stop (nothing was flushed after the acquisition
        // that ended without one) -- but a reader that is registered in the runtime must keep consuming,
        // or the documented back-pressure stalls the stream
        if (m.registered) {
            VideoFrame *b = nullptr, *e = nullptr;
            if (acquire_map_read(x.rt, (uint32_t)s, &b, &e) == AcquireStatus_Ok)
                acquire_unmap_read(x.rt, (uint32_t)s, (size_t)((uint8_t*)e - (uint8_t*)b));
        }
        return;
    }
    bool enabled_now = false, averaged = false;
    size_t acq = 0;
    for (size_t ai : x.cur_acqs)
        if (x.acqs[ai].stream == s) {
            enabled_now = true;
            averaged = x.acqs[ai].cfg.avg >= 2;
            acq = ai;
        }
    if (!enabled_now && !m.registered)
        return; // monitoring a stream that never ran: nothing to observe
    m.held.clear(); // (a region held across an abort was released by the abort's flush)
    VideoFrame *b = nullptr, *e = nullptr;
    AcquireStatusCode r = acquire_map_read(x.rt, (uint32_t)s, &b, &e);
    bool first = !m.registered;
    m.registered = true;
    x.c.cls(CL_MONITOR);
    if (first && x.acq_index >= 1 && x.running) {
        x.c.cls(CL_MONITOR_LATE);
        if (x.started_acqs >= 2)
            x.c.nontrivial(P_C06);
    }
    if (r != AcquireStatus_Ok) {
        // (soft in other properties' runs: the client simply has no region this time and goes on polling)
        x.c.fail_soft("C06", "map-fails", x.running ? "running" : "idle", "stream %d: acquire_map_read failed for a client that had unmapped its previous region", s);
        return;
    }
    size_t n = (size_t)((uint8_t*)e - (uint8_t*)b);
    x.c.trace("client: MAP stream %d -> %zu bytes", s, n);
    m.mapped = true;
    m.beg = b;
    m.end = e;
    m.frame_sizes.clear();
    if (!n)
        return;
    std::vector<const VideoFrame*> frames;
    if (walk_packet(x, "monitor", s, (const uint8_t*)b, n, averaged, &frames)) {
        // the client cannot consume a region it cannot parse: whatever it is, it is not the gap-free
        // sequence of correct frames C06 promises (C05 has judged the structure itself); the case ends here
        if (!x.c.ended)
            x.c.fail("C06", "monitor-region", "not-a-frame-sequence", "stream %d: the %zu-byte region mapped by the monitoring client is not a sequence of whole frames", s, n);
        x.c.ended = true;
        return;
    }
    for (const VideoFrame* f : frames)
        m.frame_sizes.push_back(f->bytes_of_frame);
    m.held.assign((const uint8_t*)b, (const uint8_t*)b + n);
    if (!x.running) {
        x.c.fail(leftover_prop(x), "data-while-idle", "stale", "stream %d: the monitor received %zu frames although no acquisition is running", s, frames.size());
        return;
    }
    AcqRec& a = x.acqs[acq];
    // freshness + continuity
    for (size_t i = 0; i < frames.size(); ++i) {
        const VideoFrame* f = frames[i];
        if (!averaged) {
            int fr = (int)((f->timestamps.hardware >> 32) & 0xffffff);
            int fc = (int)(f->timestamps.hardware >> 56) - 1;
            if (fc != a.cfg.cam || fr != a.cam_run) {
                x.c.fail(leftover_prop(x), "foreign-frame", m.frames_seen == 0 && first ? "monitor-first-registered-in-later-acquisition" : fr < a.cam_run ? "earlier-acquisition" : "other",
                              "stream %d: the monitor was handed a frame of camera %d run %d (frame id %llu) during acquisition %d (camera %d run %d)", s, fc, fr,
                              (unsigned long long)f->frame_id, x.acq_index, a.cfg.cam, a.cam_run);
                return;
            }
            size_t img = (size_t)f->shape.strides.planes * vmock::bpp(f->shape.type);
            uint64_t k = f->timestamps.hardware & 0xffffffffu;
            vmock::Expected ex = vmock::expected_pixels(fc, fr, k);
            for (size_t j = 0; j < img; ++j)
                if (f->data[j] != ex.at(j)) {
                    x.c.fail("C06", "monitor-pixels", "altered", "stream %d: monitor frame id %llu pixel byte %zu differs from what the camera delivered", s,
                                  (unsigned long long)f->frame_id, j);
                    return;
                }
        }
        uint64_t id = f->frame_id;
        if (i == 0) {
            if (m.known && m.acq_seen == x.acq_index && id != m.next_id) {
                x.c.fail("C06", "monitor-sequence", id > m.next_id ? "gap" : "repeat", "stream %d: the mapped region starts at frame id %llu; the first unconsumed frame is %llu",
                              s, (unsigned long long)id, (unsigned long long)m.next_id);
                return;
            }
            if (!m.known || m.acq_seen != x.acq_index) {
                m.known = true;
                m.acq_seen = x.acq_index;
                m.next_id = id;
            }
        } else if (!averaged && id != frames[i - 1]->frame_id + 1) {
            x.c.fail("C06", "monitor-sequence", id > frames[i - 1]->frame_id + 1 ? "gap" : "repeat", "stream %d: frame id %llu follows %llu inside one mapped region", s,
                          (unsigned long long)id, (unsigned long long)frames[i - 1]->frame_id);
            return;
        }
    }
    if (averaged && a.cam && !x.c.ended) {
        int kwin = a.cfg.avg;
        std::vector<vmock::Delivered> del = delivered_of(a.cam, a.cam_run);
        for (const VideoFrame* f : frames) {
            if (f->shape.type != SampleType_f32) {
                x.c.fail_soft("C10", "avg-shape", "monitor", "stream %d: the monitor received a frame of type %d on an averaging stream", s, (int)f->shape.type);
                break;
            }
            uint64_t first = f->frame_id;
            if (first % (uint64_t)kwin != 0 || first + kwin > del.size())
                continue; // trailing / partial window or not yet known: not judged here
            size_t npx = (size_t)f->shape.strides.planes;
            size_t bp = vmock::bpp(del[first].shape.type);
            const float* px = (const float*)f->data;
            bool bad = false;
            for (size_t p = 0; p < npx && !bad; ++p) {
                double sum = 0;
                for (int q = 0; q < kwin; ++q) {
                    const vmock::Delivered& d = del[first + q];
                    uint8_t r0 = vmock::prf(vmock::hub.salt, a.cam->idx, a.cam_run, d.k, p * bp);
                    uint8_t r1 = bp > 1 ? vmock::prf(vmock::hub.salt, a.cam->idx, a.cam_run, d.k, p * bp + 1) : (uint8_t)0;
                    switch (del[first].shape.type) {
                        case SampleType_u8: sum += r0; break;
                        case SampleType_i8: sum += (int8_t)r0; break;
                        case SampleType_i16: sum += (int16_t)(r0 | (r1 << 8)); break;
                        default: sum += (uint16_t)(r0 | (r1 << 8)); break;
                    }
                }
                double mean = sum / kwin;
                if (!(std::fabs((double)px[p] - mean) <= std::fabs(mean) * 4e-7 + 1e-4)) {
                    x.c.fail_soft("C10", "avg-pixel", "monitor", "stream %d: averaged frame id %llu seen by the monitor has pixel %zu = %.9g; the mean of the %d inputs is %.9g", s,
                                  (unsigned long long)first, p, (double)px[p], kwin, mean);
                    bad = true;
                }
            }
            if (bad)
                break;
        }
    }
    m.frames_seen += frames.size();
    // lag statistic
    if (a.cam && !frames.empty() && a.cam->k > frames.back()->frame_id + 1)
        x.c.cls(CL_MONITOR_LAG);
}

void
do_unmap(Ctx& x, int s, unsigned sel)
{
    Mon& m = x.mon[s];
    if (!m.mapped || x.c.ended || !x.rt)
        return;
    size_t nf = m.frame_sizes.size();
    size_t take;
    switch (sel % 6) {
        case 0:
        case 1:
        case 2: take = nf; break;
        case 3: take = 0; break;
        default: take = nf ? (sel / 6) % (nf + 1) : 0; break;
    }
    size_t bytes = 0;
    for (size_t i = 0; i < take; ++i)
        bytes += m.frame_sizes[i];
    if (take < nf) {
        x.c.cls(CL_PARTIAL_CONSUME);
        if (x.started_acqs >= 2)
            x.c.nontrivial(P_C06);
    }
    // mapped bytes must not have changed while held (zero-copy consumers)
    if (!m.held.empty() && m.beg) {
        const uint8_t* now = (const uint8_t*)m.beg;
        for (size_t k = 0; k < m.held.size(); ++k)
            if (now[k] != m.held[k]) {
                if (x.c.fail_soft("C02", "mapped-region-modified", "monitor", "stream %d: byte %zu of the %zu-byte region the monitoring client holds changed while it was mapped", s, k,
                                  m.held.size()))
                    return;
                break;
            }
    }
    m.held.clear();
    x.c.trace("client: UNMAP stream %d consumed %zu of %zu frames (%zu bytes)", s, take, nf, bytes);
    AcquireStatusCode r = acquire_unmap_read(x.rt, (uint32_t)s, bytes);
    m.mapped = false;
    if (r != AcquireStatus_Ok) {
        x.c.fail("C06", "unmap-fails", "status", "stream %d: acquire_unmap_read failed", s);
        return;
    }
    if (m.known) {
        uint64_t step = 1; // averaged streams carry the id of each window's first frame
        for (size_t ai : x.cur_acqs)
            if (x.acqs[ai].stream == s && x.acqs[ai].cfg.avg >= 2)
                step = (uint64_t)x.acqs[ai].cfg.avg;
        m.next_id += take * step;
    }
    m.frame_sizes.clear();
}

void
drain_monitor(Ctx& x, int s)
{
    if (!x.mon[s].registered)
        return;
    if (x.mon[s].mapped)
        do_unmap(x, s, 0);
    if (x.client_style == 3 && (++x.mon_polls[s] & 1))
        return; // a slow client: polls only every other time
    do_map(x, s);
    if (x.c.ended)
        return;
    if (x.mon[s].mapped && !x.mon[s].frame_sizes.empty() && (++x.double_map_attempts % 7 == 3)) {
        do_map(x, s); // a second map without unmap (refused)
        if (x.c.ended)
            return;
    }
    size_t nf = x.mon[s].frame_sizes.size();
    unsigned sel = 0; // everything
    if (x.client_style == 1 && nf >= 2)
        sel = 4 + 6 * (unsigned)(nf - 1); // all but the last frame
    else if (x.client_style == 2 && nf >= 2)
        sel = 4 + 6 * 1u; // one frame at a time
    do_unmap(x, s, sel);
}

void
sleep_ms(float ms)
{
    struct clock c;
    clock_init(&c);
    clock_sleep_ms(&c, ms);
}

void
do_stop_when_done(Ctx& x)
{
    if (!x.running || x.c.ended)
        return;
    bool infinite = false;
    for (size_t ai : x.cur_acqs)
        infinite |= x.acqs[ai].cfg.nframes < 0;
    if (infinite) {
        // stop means "wait for completion": on an infinite acquisition only abort ends it
        bool plain = x.other_done && !x.aborted_current && !x.disrupted;
        for (size_t ai : x.cur_acqs) {
            const AcqRec& a = x.acqs[ai];
            plain &= a.cfg.nframes < 0 && !a.cfg.trigger && !a.cfg.fault_site && !a.start_failed && !x.mon[a.stream].registered;
        }
        if (plain) {
            // ... and it must not end by itself either: 2^32+3 and 2^40+1 frames are as endless as "no limit"
            sleep_ms(90.0f);
            if (!x.c.ended && acquire_get_state(x.rt) != DeviceState_Running) {
                uint64_t got = 0;
                for (size_t ai : x.cur_acqs)
                    if (x.acqs[ai].cam)
                        got += x.acqs[ai].cam->k;
                x.c.fail("C04", "ended-early", "practically-endless-frame-count",
                         "an acquisition with a practically endless frame count (no limit, 2^32+3 or 2^40+1) ended by itself after %llu frames", (unsigned long long)got);
                return;
            }
        }
        x.c.trace("client: (infinite acquisition) ABORT");
        x.in_stop_or_abort = true;
        acquire_abort(x.rt);
        x.in_stop_or_abort = false;
        finish_acquisition(x, true, "acquire_abort");
        return;
    }
    x.c.trace("client: STOP_WHEN_DONE (poll state, keep draining the monitor, trigger if needed)");
    int polls = 0, quiet = 0;
    uint64_t last_events = 0;
    bool any_trigger = false, any_fault = false;
    for (size_t ai : x.cur_acqs) {
        any_trigger |= x.acqs[ai].cfg.trigger;
        any_fault |= x.acqs[ai].cfg.fault_site != 0;
    }
    // ("Running only while workers are alive" is judged against the moment BEFORE the call: with preemption
    // inside acquire_get_state the last worker may exit between its reading of the flags and its return)
    bool alive_before = workers_alive(x);
    while (!x.c.ended && !x.aborted_current && acquire_get_state(x.rt) == DeviceState_Running) {
        // Every worker blocked (none runnable, none sleeping) while the runtime still reports
        // Running: nobody but this client could ever wake them, and it only polls.  That is a hang
        // of the acquisition, decided on the scheduler's state, not on a time-out.
        if (!any_trigger && x.other_done) {
            // progress = any device call at all (camera frame calls, storage appends).  Periods and
            // delays are <= 30 ms of virtual time, one poll is 2 ms: 500 polls (1 s) without a single
            // device call while the runtime reports Running means the workers wait for each other.
            uint64_t ev = 0;
            for (vmock::Instance* i : vmock::hub.instances)
                ev += i->calls + i->packets.size() + i->events.size();
            quiet = (ev != last_events) ? 0 : quiet + 1;
            last_events = ev;
            if (quiet >= 500 && workers_alive(x)) {
                std::string who;
                for (int f = 0; f < vsim::nfibers(); ++f)
                    if (f != x.f_client && vsim::info(f).st != vsim::DONE) {
                        char b[64];
                        snprintf(b, sizeof b, "#%d:%s ", f, vsim::state_name(vsim::info(f).st));
                        who += b;
                    }
                for (int s2 = 0; s2 < 2; ++s2)
                    if (x.ring_sink[s2].ch) {
                        const struct channel* ch = x.ring_sink[s2].ch;
                        x.c.trace("    (diagnostics) sink ring %d: capacity=%zu head=%zu high=%zu cycle=%zu mapped=%zu accepting=%d readers=%u [0]=(%zu,%zu) [1]=(%zu,%zu)", s2,
                                  ch->capacity, ch->head, ch->high, ch->cycle, ch->mapped, (int)ch->is_accepting_writes, ch->holds.n, ch->holds.pos[0],
                                  ch->holds.cycles[0], ch->holds.pos[1], ch->holds.cycles[1]);
                    }
                x.c.fail(vh_focus && !strcmp(vh_focus, "C03") ? "C03" : any_fault ? "C09" : "C04", "acquisition-hangs", any_fault ? "after-device-fault" : "no-fault",
                         "the runtime reports Running but no device call has happened for 1 s of virtual time (workers: %s): the acquisition never finishes and acquire_stop would wait forever",
                         who.c_str());
                break;
            }
        }
        if (!alive_before) {
            x.c.fail_soft("C08", "running-without-workers", "poll", "acquire_get_state reports Running although no worker thread was alive when it was called");
            break;
        }
        for (int s = 0; s < 2; ++s)
            drain_monitor(x, s);
        for (size_t ai : x.cur_acqs)
            if (x.acqs[ai].cfg.trigger)
                acquire_execute_trigger(x.rt, (uint32_t)x.acqs[ai].stream);
        sleep_ms(2.0f);
        if (++polls > 4000)
            break;
        alive_before = workers_alive(x);
    }
    if (x.c.ended)
        return;
    for (int s = 0; s < 2; ++s)
        if (x.mon[s].mapped)
            do_unmap(x, s, 0);
    bool by_other = x.aborted_current; // the other thread aborted meanwhile: this is an aborted acquisition
    x.in_stop_or_abort = true;
    acquire_stop(x.rt);
    x.in_stop_or_abort = false;
    by_other |= x.aborted_current;
    while (by_other && !x.other_done && !x.c.ended)
        sleep_ms(2.0f);
    x.aborted_current = false;
    finish_acquisition(x, by_other, by_other ? "acquire_abort(other thread)" : "acquire_stop");
}

// The client polls until the runtime no longer reports Running and then goes on WITHOUT calling
// acquire_stop (re-configures, possibly with other devices, and starts again): the device
// life-cycle automaton judges what the runtime does to the devices in that window.
void
do_poll_done_without_stop(Ctx& x)
{
    if (!x.running || x.c.ended)
        return;
    for (size_t ai : x.cur_acqs) {
        const AcqRec& a = x.acqs[ai];
        if (a.cfg.nframes < 0 || a.cfg.trigger || a.cfg.fault_site || a.start_failed || x.mon[a.stream].registered) {
            do_stop_when_done(x); // needs triggers / never ends / failed / monitored: use the ordinary ending
            return;
        }
    }
    if (x.aborted_current || !x.other_done || x.disrupted) {
        do_stop_when_done(x);
        return;
    }
    x.c.trace("client: POLL until not Running, then carry on without acquire_stop");
    int polls = 0;
    while (!x.c.ended && acquire_get_state(x.rt) == DeviceState_Running) {
        sleep_ms(2.0f);
        if (++polls > 4000) {
            do_stop_when_done(x);
            return;
        }
    }
    if (x.c.ended)
        return;
    x.c.cls(CL_NO_STOP);
    x.running = false;
    x.mon_disabled[0] = x.mon_disabled[1] = true; // nothing was flushed: monitoring of a stream is only judged again after a real stop that covers it
    for (size_t ai : x.cur_acqs) {
        AcqRec& a = x.acqs[ai];
        a.stopped = true;
        if (a.cfg.avg >= 2)
            check_averaging(x, a, true);
        else
            check_storage_vs_camera(x, a, x.taint, a.cfg.nframes >= 0, false);
        if (x.c.ended)
            return;
    }
    x.configured = true;
}

void
do_stop_now(Ctx& x)
{
    if (!x.running || x.c.ended)
        return;
    bool must_poll = false;
    for (size_t ai : x.cur_acqs) {
        const AcqRec& a = x.acqs[ai];
        if (a.cfg.nframes < 0 || a.cfg.trigger || x.mon[a.stream].registered)
            must_poll = true; // documented back-pressure / needs triggers: stop alone would wait forever by design
    }
    if (must_poll) {
        do_stop_when_done(x);
        return;
    }
    x.c.trace("client: STOP_NOW (acquire_stop waits for completion)");
    x.in_stop_or_abort = true;
    x.in_stop_now = true;
    acquire_stop(x.rt);
    x.in_stop_now = false;
    x.in_stop_or_abort = false;
    bool by_other = x.aborted_current;
    while (by_other && !x.other_done && !x.c.ended)
        sleep_ms(2.0f);
    x.aborted_current = false;
    finish_acquisition(x, by_other, by_other ? "acquire_abort(other thread)" : "acquire_stop");
}

void
note_abort_context(Ctx& x)
{
    bool blocked = false;
    for (int f = 0; f < vsim::nfibers(); ++f)
        if (f != x.f_client && f != x.f_other) {
            vsim::State st = vsim::info(f).st;
            if (st == vsim::BLK_COND)
                blocked = true;
        }
    if (blocked) {
        x.c.cls(CL_ABORT_WHILE_BLOCKED);
        x.c.nontrivial(P_C07);
    }
    for (int s = 0; s < 2; ++s)
        if (x.mon[s].mapped) {
            x.c.cls(CL_ABORT_WHILE_MAPPED);
            x.c.nontrivial(P_C07);
        }
}

void
do_abort(Ctx& x)
{
    if (!x.rt || x.c.ended)
        return;
    if (!x.running) {
        // abort while idle must be harmless
        x.c.trace("client: ABORT (idle)");
        acquire_abort(x.rt);
        return;
    }
    note_abort_context(x);
    x.c.trace("client: ABORT");
    x.in_stop_or_abort = true;
    acquire_abort(x.rt);
    x.in_stop_or_abort = false;
    while (x.aborted_current && !x.other_done && !x.c.ended)
        sleep_ms(2.0f);
    x.aborted_current = false;
    finish_acquisition(x, true, "acquire_abort");
}

void
other_main(void*)
{
    Ctx& x = *g;
    sleep_ms(0.2f + 0.5f * (float)(x.abort_other_delay % 40));
    // (also while the first client thread is blocked inside a plain acquire_stop: the user presses
    // "abort" while the application waits for a long acquisition to complete)
    if (x.running && !x.c.ended && (!x.in_stop_or_abort || x.in_stop_now)) {
        bool concurrent = x.in_stop_now;
        note_abort_context(x);
        x.c.cls(CL_ABORT_OTHER_THREAD);
        if (concurrent) {
            x.c.cls(CL_ABORT_WHILE_OTHER_IN_STOP);
            x.c.nontrivial(P_C07);
        }
        x.c.trace("other thread: ABORT%s", concurrent ? "   (the first client thread is inside acquire_stop)" : "");
        x.aborted_current = true;
        int acq0 = x.acq_index;
        acquire_abort(x.rt);
        x.c.trace("other thread: abort returned");
        // abort has returned: whatever the other thread is doing, the workers are gone and the devices stopped
        // (unless the first client thread has started the next acquisition in the meantime)
        if (x.acq_index != acq0)
            ;
        else if (!x.c.ended && workers_alive(x))
            x.c.fail("C07", "abort-returned-early", concurrent ? "concurrent-with-stop" : "other-thread",
                     "acquire_abort returned to the second client thread while worker threads of the acquisition are still alive");
        for (size_t ai : x.cur_acqs) {
            const AcqRec& a = x.acqs[ai];
            if (x.acq_index == acq0 && !x.c.ended && a.cam && a.cam->started && !a.cam->closed)
                x.c.fail("C07", "abort-returned-early", "camera-still-started", "acquire_abort returned while the camera of stream %d is still started", a.stream);
        }
    }
    x.other_done = true;
}

void
do_reinit(Ctx& x)
{
    if (x.c.ended)
        return;
    if (x.running) {
        x.c.trace("client: (running) ABORT before shutdown");
        do_abort(x);
    }
    if (x.c.ended)
        return;
    x.c.cls(CL_REINIT);
    x.c.trace("client: SHUTDOWN + INIT");
    acquire_shutdown(x.rt);
    x.rt = nullptr;
    vmock::check_released("shutdown");
    vmock::check_all_closed();
    if (x.c.ended)
        return;
    x.channel_new_calls = 0;
    x.rt = acquire_init(reporter);
    x.dm = x.rt ? acquire_device_manager(x.rt) : nullptr;
    x.configured = false;
    for (int s = 0; s < 2; ++s)
        x.mon[s] = Mon();
    if (!x.rt)
        x.c.fail_soft("C08", "init-failed", "reinit", "acquire_init failed after a shutdown");
}

void
client_main(void*)
{
    Ctx& x = *g;
    x.rt = acquire_init(reporter);
    if (!x.rt) {
        x.c.fail("C08", "init-failed", "first", "acquire_init failed");
        x.client_done = true;
        return;
    }
    x.dm = acquire_device_manager(x.rt);
    for (size_t i = 0; i < x.ops.size() && !x.c.ended && x.rt; ++i) {
        const Op& op = x.ops[i];
        // an abort from the other thread ended the acquisition under the client's feet
        if (x.aborted_current && x.running && x.other_done) {
            x.c.trace("client: (notices the abort by the other thread)");
            for (int s = 0; s < 2; ++s)
                x.mon[s].mapped = false; // flushed by the abort
            x.in_stop_or_abort = true;
            acquire_stop(x.rt);
            x.in_stop_or_abort = false;
            finish_acquisition(x, true, "acquire_abort(other thread)");
            x.aborted_current = false;
            if (x.c.ended)
                break;
        }
        switch (op.kind) {
            case K_CONFIGURE:
                if (!x.running)
                    do_configure(x, op.cfg);
                else if ((op.t.a & 1) && (!vh_focus || !*vh_focus || !strcmp(vh_focus, "C08")) && !x.disrupted && x.other_done && !x.aborted_current &&
                         !uses_real_camera(x.applied) && !uses_real_camera(op.cfg)) {
                    // (not with the shipped simulated cameras: there the known findings are heap corruption
                    // in the camera, which ends the process instead of being tolerated by signature)
                    // tier B ("in any order"): configure while an acquisition is running.  Only in runs
                    // made for C08; every life-cycle breach observed from here on carries the context
                    // "@configure-while-running" in its signature (see known_findings.txt).
                    {
                        bool sw = false;
                        for (int s2 = 0; s2 < 2; ++s2)
                            if (op.cfg[s2].enabled != x.applied[s2].enabled || (op.cfg[s2].enabled && (op.cfg[s2].cam != x.applied[s2].cam || op.cfg[s2].store != x.applied[s2].store)))
                                sw = true;
                        vmock::hub.context = sw ? "configure-while-running:other-devices" : "configure-while-running:same-devices";
                    }
                    x.tier_b = true;
                    do_configure(x, op.cfg);
                    x.disrupted = true;
                }
                break;
            case K_START:
                if (!x.configured && !x.running)
                    do_configure(x, op.cfg);
                if (x.running && x.rt && !x.c.ended) {
                    x.configured = true; // (start while running does not depend on it)
                }
                do_start(x);
                break;
            case K_RUN:
                if (x.running)
                    do_stop_when_done(x);
                if (x.c.ended)
                    break;
                do_configure(x, op.cfg);
                do_start(x);
                x.client_style = (op.t.d >> 3) % 4;
                if (x.running && (op.t.a & 1))
                    do_map(x, (op.t.a >> 1) & 1);
                if (x.running && !x.c.ended) {
                    switch (op.t.a >> 6) { // how this acquisition ends
                        case 2:
                            sleep_ms(0.5f + (float)(op.t.d % 40));
                            do_abort(x);
                            break;
                        case 3:
                            if (x.other_done) {
                                x.abort_other_delay = op.t.d % 97;
                                x.other_done = false;
                                x.f_other = vsim::spawn(other_main, nullptr, "client-2");
                            }
                            if ((op.t.d >> 12) & 1)
                                do_stop_now(x); // the abort arrives while this thread waits inside acquire_stop
                            else
                                do_stop_when_done(x);
                            break;
                        case 1: do_stop_now(x); break;
                        default:
                            if ((op.t.d >> 5) % 2 == 0)
                                do_poll_done_without_stop(x);
                            else
                                do_stop_when_done(x);
                            break;
                    }
                }
                break;
            case K_STOP_DONE: do_stop_when_done(x); break;
            case K_STOP_NOW: do_stop_now(x); break;
            case K_ABORT: do_abort(x); break;
            case K_ABORT_OTHER:
                if (x.running && x.other_done) {
                    x.abort_other_delay = op.t.a;
                    x.other_done = false;
                    x.f_other = vsim::spawn(other_main, nullptr, "client-2");
                }
                break;
            case K_TRIGGER:
                if (x.running)
                    acquire_execute_trigger(x.rt, op.t.a & 1);
                break;
            case K_MAP:
                do_map(x, op.t.a & 1);
                if (!x.c.ended && x.mon[op.t.a & 1].mapped && (i % 3 == 0))
                    do_map(x, op.t.a & 1); // ... and once more without unmap: must be refused, harmlessly
                break;
            case K_UNMAP: do_unmap(x, op.t.a & 1, op.t.b); break;
            case K_SLEEP: {
                bool holding = x.mon[0].mapped || x.mon[1].mapped;
                if (holding && x.running) {
                    x.c.cls(CL_HOLD);
                    x.c.nontrivial(P_C02);
                    if (x.started_acqs >= 2)
                        x.c.nontrivial(P_C06);
                }
                sleep_ms(0.5f + (float)(op.t.a % 64));
                break;
            }
            case K_GET_STATE: {
                bool alive0 = workers_alive(x);
                DeviceState st = acquire_get_state(x.rt);
                if (st == DeviceState_Running && !alive0)
                    x.c.fail_soft("C08", "running-without-workers", "get_state", "acquire_get_state reports Running although no worker thread is alive");
                break;
            }
            case K_REINIT: do_reinit(x); break;
        }
    }
    // wind down: wait for the other thread, end a running acquisition, shut down
    while (!x.other_done && !x.c.ended)
        sleep_ms(2.0f);
    if (!x.c.ended && x.running && x.rt) {
        if (x.aborted_current) {
            for (int s = 0; s < 2; ++s)
                x.mon[s].mapped = false;
            x.in_stop_or_abort = true;
            acquire_stop(x.rt);
            x.in_stop_or_abort = false;
            finish_acquisition(x, true, "acquire_abort(other thread)");
        } else
            do_stop_when_done(x);
    }
    if (!x.c.ended && x.rt) {
        for (int s = 0; s < 2; ++s)
            if (x.mon[s].mapped)
                do_unmap(x, s, 0);
        x.c.trace("client: SHUTDOWN");
        acquire_shutdown(x.rt);
        x.rt = nullptr;
        vmock::check_released("shutdown");
        vmock::check_all_closed();
    }
    x.client_done = true;
}

} // namespace

// sink.c and filter.c are compiled with -Dchannel_new=vh_channel_new: the case chooses capacities.
extern "C" void
vh_channel_new(struct channel* self, size_t requested)
{
    Ctx& x = *g;
    int call = x.channel_new_calls++;
    int stream = (call / 2) % 2;
    bool is_filter = call % 2 == 1;
    size_t unit = is_filter ? x.max_frame_bytes[stream] : std::max(x.max_frame_bytes[stream], x.max_avg_frame_bytes[stream]);
    if (!unit)
        unit = frame_bytes(4, 3, SampleType_u8);
    double factor = is_filter ? x.filter_factor : x.sink_factor;
    size_t cap = (size_t)((double)unit * factor) + 8;
    if (cap <= unit)
        cap = unit + 8;
    (void)requested;
    channel_new(self, cap);
    // The origin of the lap counter is arbitrary (a runtime that has streamed for days has a large one and
    // nothing resets it): start near 2^8, 2^16 or 2^32 laps in some cases.  No reader is registered yet, so
    // this is the state "that many laps written, everything consumed".
    self->cycle = x.lap_origin;
    Ring& r = is_filter ? x.ring_filter[stream] : x.ring_sink[stream];
    r.ch = self;
    r.base = self->data;
    r.cap = cap;
    r.last_addr = 0;
    r.wraps = 0;
}

extern "C" const VhSpec*
vh_spec(void)
{
    return &kSpec;
}

extern "C" int
vh_run(const VhTok* tape, size_t n, VhReport* rep)
{
    Ctx* px = new Ctx();
    Ctx& x = *px;
    g = px;
    x.c.begin(rep, &kSpec);
    vsim::reset();
    vmock::hub.reset();
    vmock::hub.context = "";
    vmock::hub.c = &x.c;
    vmock::on_append = on_append_hook;
    logger_set_reporter(reporter);
    if (vh_focus && (!strcmp(vh_focus, "C09") || !strcmp(vh_focus, "C07")))
        vmock::hub.lifecycle_prop = vh_focus; // device life-cycle breaches count for the property under test
    else
        vmock::hub.lifecycle_prop = "C08";

    // ---- decode: configuration tokens update the current configuration; client tokens become ops
    StreamCfg cur[2];
    cur[0].enabled = true;
    static const SampleType types[8] = { SampleType_u8, SampleType_u16, SampleType_i8, SampleType_i16, SampleType_u8, SampleType_u10, SampleType_u12, SampleType_u14 };
    bool ring_set = false;
    auto note_sizes = [&](const StreamCfg c[2]) {
        for (int s = 0; s < 2; ++s) {
            x.max_frame_bytes[s] = std::max(x.max_frame_bytes[s], frame_bytes(c[s].w, c[s].h, c[s].type));
            x.max_avg_frame_bytes[s] = std::max(x.max_avg_frame_bytes[s], frame_bytes(c[s].w, c[s].h, SampleType_f32));
        }
    };
    for (size_t ti = 0; ti < n; ++ti) {
        const VhTok& t = tape[ti];
        int kind = t.kind % K_COUNT;
        rep->steps++;
        x.c.mix(kind * 1013u + t.a);
        x.c.mix(((uint64_t)t.b << 32) | ((uint64_t)t.c << 16) | t.d);
        int s = t.a & 1;
        switch (kind) {
            case K_STREAM:
                cur[s].enabled = (t.a >> 1) & 1 ? true : (s == 1 ? false : true);
                cur[s].cam = ((t.a >> 2) & 1) | (((t.a >> 6) & 3) == 3 ? 2 : 0); // a quarter: the shipped simulated cameras
                cur[s].store = (t.a >> 3) & 1;
                if (s == 1 && ((t.a >> 4) & 1))
                    cur[1].enabled = true;
                break;
            case K_CAM: {
                cur[s].type = types[(t.a >> 1) % 8];
                auto dim = [](uint16_t v) -> uint32_t {
                    switch (v % 4) {
                        case 0: return 1 + (v >> 2) % 8;
                        case 1: return 1 + 2 * ((v >> 2) % 12);
                        case 2: return 1 + (v >> 2) % 40;
                        default: return 3 + (v >> 2) % 5;
                    }
                };
                cur[s].w = dim(t.b);
                cur[s].h = dim(t.c);
                cur[s].nframes = (t.d % 16 == 15) ? -1 : 1 + t.d % 24;
                cur[s].huge = (t.d >> 4) % 3; // which kind of "practically endless"
                break;
            }
            case K_PACE: {
                static const uint32_t periods[8] = { 0, 100, 500, 1000, 2000, 5000, 10000, 20000 };
                cur[s].period_us = periods[t.b % 8];
                cur[s].trigger = ((t.a >> 1) & 3) == 3;
                cur[s].noframe_every = (t.a >> 3) % 4 == 0 ? 2 + (t.c % 5) : 0;
                cur[s].gap_every = (t.a >> 5) % 4 == 0 ? 2 + ((t.c >> 4) % 5) : 0;
                cur[s].vary = (t.a >> 7) ? 1 + ((t.c >> 8) & 1) : 0;
                break;
            }
            case K_AVG: cur[s].avg = (t.b % 4 == 0) ? ((t.b >> 2) & 1) : 2 + (t.b >> 2) % 15; break; // 0 and 1 both mean "no averaging"
            case K_DELAY: {
                static const float wd[4] = { 0.f, 0.f, 3.f, 25.f };
                static const float sd[4] = { 0.f, 0.f, 2.f, 30.f };
                cur[s].write_delay_ms = wd[t.b % 4];
                cur[s].store_delay_ms = sd[t.c % 4];
                break;
            }
            case K_RING: {
                static const double f[8] = { 1.1, 1.5, 2.0, 2.5, 3.0, 4.0, 8.0, 64.0 };
                if (!ring_set) {
                    x.sink_factor = f[t.a % 8];
                    x.filter_factor = f[t.b % 8];
                    ring_set = true;
                }
                break;
            }
            case K_FAULT:
                if (t.c == 1) { // explicit form (systematic enumeration): site and index as given
                    cur[s].fault_site = 1 + (t.a >> 1) % 4;
                    cur[s].fault_index = t.b;
                    break;
                }
                cur[s].fault_site = (t.a >> 1) % 8 == 0 ? 0 : 1 + (t.a >> 1) % 4;
                if (cur[s].fault_site == 4 || cur[s].fault_site == 3)
                    cur[s].fault_site = (t.b & 0x80) ? cur[s].fault_site : 2; // start faults are rarer
                cur[s].fault_index = t.b % 12;
                break;
            case K_OPENFAULT:
                cur[(t.a >> 1) & 1].open_fault = 1 + (t.a & 1);
                break;
            case K_SCHED: {
                if (x.sched.bytes.empty() && (t.a & 1)) {
                    x.sched.mode = vsim::TapeSched::PCT;
                    x.c.cls(CL_PCT);
                }
                x.sched.arm_fine(t.a, t.b, t.c, t.d); // fine profile: preempt inside the code under test, between platform calls
                uint16_t w[3] = { t.b, t.c, t.d };
                for (uint16_t v : w) {
                    if (x.sched.mode == vsim::TapeSched::PCT && x.sched.change_points.size() < 4)
                        x.sched.change_points.push_back(v % 3000);
                    x.sched.bytes.push_back((uint8_t)(v & 0xff));
                    x.sched.bytes.push_back((uint8_t)(v >> 8));
                }
                break;
            }
            case K_RUN: {
                // self-contained acquisition: a scenario chosen by the token shapes the configuration so
                // that the interesting regimes (ring full, faults with a blocked source, trigger waits,
                // averaging on reused memory, two streams, a lagging monitor) are common
                StreamCfg c2[2] = { cur[0], cur[1] };
                uint64_t h = vh_mix64(((uint64_t)t.b << 32) | ((uint64_t)t.c << 16) | t.d);
                int scen = (t.a >> 3) & 7;
                if ((t.a >> 2) & 1 || scen) {
                    StreamCfg& c = c2[0];
                    c.enabled = true;
                    c.type = types[h % 8];
                    c.w = 1 + (h >> 4) % 9;
                    c.h = 1 + (h >> 9) % 7;
                    c.nframes = 3 + (h >> 14) % 30;
                    c.cam = ((h >> 20) & 1) | ((h >> 56) % 4 == 0 ? 2 : 0); // a quarter: the shipped simulated cameras
                    c.store = (h >> 21) & 1;
                    c.fault_site = 0;
                    c.trigger = false;
                    c.avg = 0;
                    c.write_delay_ms = c.store_delay_ms = 0;
                    c.noframe_every = c.gap_every = 0;
                    c.vary = (h >> 52) % 3 == 0 ? 1 + ((h >> 54) & 1) : 0;
                    static const uint32_t per[4] = { 0, 200, 1000, 4000 };
                    c.period_us = per[(h >> 22) % 4];
                    switch (scen) {
                        case 1: // slow storage, fast camera: the source blocks on a full ring
                            c.period_us = (h >> 24) & 1 ? 0 : 100;
                            c.store_delay_ms = (h >> 25) & 1 ? 30.f : 12.f;
                            break;
                        case 2: c.trigger = true; break;
                        case 3:
                            c.avg = 2 + (h >> 26) % 5;
                            c.type = types[(h >> 30) % 4];
                            c.nframes = c.avg * (2 + (h >> 33) % 4) + (h >> 36) % c.avg;
                            break;
                        case 4: // storage fault while the source is (likely) blocked on a full ring
                            c.period_us = 0;
                            c.store_delay_ms = 12.f;
                            c.fault_site = 2;
                            c.fault_index = 1 + (h >> 26) % 6;
                            break;
                        case 5: // camera fault after some frames
                            c.fault_site = 1;
                            c.fault_index = (h >> 26) % (c.nframes + 2);
                            break;
                        case 6: { // two streams
                            StreamCfg& d = c2[1];
                            d = c;
                            d.enabled = true;
                            d.cam = c.cam ^ 1;
                            d.store = 1 - c.store;
                            d.type = types[(h >> 40) % 8];
                            d.w = 1 + (h >> 43) % 9;
                            d.h = 1 + (h >> 47) % 5;
                            d.nframes = 2 + (h >> 50) % 20;
                            break;
                        }
                        case 7: c.write_delay_ms = (h >> 26) & 1 ? 3.f : 25.f; break;
                        default: break;
                    }
                    if (scen != 6)
                        c2[1].enabled = false;
                    if (scen != 6 && (h >> 58) % 5 == 0) {
                        // the only configured stream is stream 1 (index 0 stays off)
                        c2[1] = c2[0];
                        c2[1].enabled = true;
                        c2[0].enabled = false;
                    }
                    if (scen == 0 && (h >> 61) % 3 == 0)
                        c2[0].avg = c2[1].avg = 1; // frame_average_count 1: no averaging
                    if (scen == 0 && (h >> 24) % 24 == 0) {
                        // frames of a little more than 16 MiB (sizes above 2^24 bytes with all low-bit patterns):
                        // a few of them, from a scripted camera, through rings of at most three frames
                        for (StreamCfg& c3 : c2)
                            if (c3.enabled) {
                                c3.type = (h >> 29) & 1 ? SampleType_i8 : SampleType_u8;
                                c3.w = 4097 + (h >> 30) % 8;
                                c3.h = 4097 + (h >> 33) % 4;
                                c3.nframes = 2 + (h >> 35) % 3;
                                c3.cam &= 1;
                                c3.vary = 0;
                                c3.avg = 0;
                                x.big_frames = true;
                            }
                    }
                    cur[0] = c2[0];
                    cur[1] = c2[1];
                }
                Op op = { kind, t, { c2[0], c2[1] } };
                // one-shot faults: a fault applies to the next start only
                x.ops.push_back(op);
                note_sizes(c2);
                // the 16 MiB frames stay with this acquisition: later tokens start from a small image again (they may
                // switch to the shipped simulated cameras, which would render 16 megapixels of sine per frame)
                for (StreamCfg& c3 : cur)
                    if (c3.w > 4096) {
                        c3.w = 1 + c3.w % 9;
                        c3.h = 1 + c3.h % 7;
                    }
                cur[0].fault_site = cur[1].fault_site = 0;
                cur[0].open_fault = cur[1].open_fault = 0;
                break;
            }
            default: {
                Op op = { kind, t, { cur[0], cur[1] } };
                x.ops.push_back(op);
                if (kind == K_CONFIGURE || kind == K_START) {
                    note_sizes(cur);
                    if (kind == K_START)
                        cur[0].fault_site = cur[1].fault_site = 0;
                    if (kind == K_CONFIGURE)
                        cur[0].open_fault = cur[1].open_fault = 0;
                }
                break;
            }
        }
    }
    note_sizes(cur);
    if (!ring_set && n) {
        static const double f[8] = { 1.1, 1.5, 2.0, 2.5, 3.0, 4.0, 8.0, 2.2 };
        uint64_t h = vh_mix64(tape[0].b * 131u + tape[0].a);
        x.sink_factor = f[h % 8];
        x.filter_factor = f[(h >> 8) % 8];
    }

    if (x.big_frames) {
        x.sink_factor = std::min(x.sink_factor, 3.0);
        x.filter_factor = std::min(x.filter_factor, 3.0);
        x.c.cls(CL_BIG_FRAMES);
    }
    if (n) {
        static const size_t origins[8] = { 0, 0, 0, 250, 65530, 4294967290ull, 250, 65530 };
        x.lap_origin = origins[vh_mix64(tape[0].c * 2654435761u + tape[0].d) % 8];
    }
    x.f_client = vsim::spawn(client_main, nullptr, "client");
    int blocked = -1;
    // Hang inside acquire_stop / acquire_abort: the client is in there and for 2 s of virtual time
    // no device call happened (worker threads that poll every 10 ms keep the scheduler busy, so this
    // is not a global deadlock; periods and delays are <= 30 ms).
    uint64_t hang_since = 0, hang_events = 0;
    auto done = [&]() {
        if ((x.client_done && x.other_done) || x.c.ended)
            return true;
        if (!x.in_stop_or_abort) {
            hang_since = 0;
            return false;
        }
        uint64_t ev = 0;
        for (vmock::Instance* i : vmock::hub.instances)
            ev += i->calls + i->packets.size() + i->events.size();
        uint64_t now = vsim::now_ns();
        if (!hang_since || ev != hang_events) {
            hang_since = now;
            hang_events = ev;
            return false;
        }
        if (now - hang_since > 2000000000ull) {
            std::string who;
            for (int f = 0; f < vsim::nfibers(); ++f)
                if (vsim::info(f).st != vsim::DONE) {
                    char b[80];
                    snprintf(b, sizeof b, "%s#%d:%s ", vsim::info(f).name, f, vsim::state_name(vsim::info(f).st));
                    who += b;
                }
            x.c.fail(hang_prop(x), "stop-or-abort-hangs", x.any_fault_in_case ? "after-device-fault" : "no-fault",
                     "the client has been inside acquire_stop/acquire_abort for 2 s of virtual time without a single device call (%s): it never returns", who.c_str());
            return true;
        }
        return false;
    };
    vsim::RunResult rr = vsim::run(x.sched, 400000, done, &blocked);
    if (x.sched.preemptions)
        x.c.cls(CL_PREEMPT);
    if (vmock::hub.slow_appends)
        x.c.nontrivial(P_C02);
    if (vsim::edge_preemptions())
        x.c.cls(CL_FINE);
    if (!x.c.ended) {
        if (rr == vsim::RUN_DEADLOCK || rr == vsim::RUN_QUIET) {
            const vsim::Info& bi = vsim::info(blocked >= 0 ? blocked : 0);
            const char* prop = hang_prop(x);
            // who is stuck?
            std::string who;
            for (int f = 0; f < vsim::nfibers(); ++f) {
                vsim::State st = vsim::info(f).st;
                if (st == vsim::BLK_MUTEX || st == vsim::BLK_COND || st == vsim::BLK_JOIN) {
                    char b[96];
                    snprintf(b, sizeof b, "%s#%d:%s ", vsim::info(f).name, f, vsim::state_name(st));
                    who += b;
                }
            }
            x.c.fail(prop, "deadlock", x.in_stop_or_abort ? "inside-stop-or-abort" : "elsewhere", "nothing can run any more (%s): %s; first blocked: '%s'",
                     x.in_stop_or_abort ? "the client is inside acquire_stop/acquire_abort" : "client not inside stop/abort", who.c_str(), bi.name);
        } else if (rr == vsim::RUN_STEPLIMIT) {
            x.c.cls(CL_STEPLIMIT);
            x.c.trace("(step limit reached: inconclusive)");
        } else if (vsim::error())
            x.c.fail("C07", "platform-misuse", "vsim", "%s", vsim::error());
    }
    vmock::hub.c = nullptr;
    vmock::on_append = nullptr;
    vsim::reset();
    g = nullptr;
    delete px;
    return rep->verdict;
}
