// vmock.hpp — scripted, recording camera and storage devices behind a Driver that the real
// loader/device manager loads through a trampoline library (libacquire-driver-zarr.so next to the
// executable calls vmock_driver_init()).  All logic lives in the executable.  DESIGN.md 2.6.
#pragma once
#include "vhx.hpp"
#include "vsim/vsim.h"

#include <map>
#include <string>
#include <vector>

extern "C"
{
#include "device/kit/camera.h"
#include "device/kit/driver.h"
#include "device/kit/storage.h"
#include "device/props/components.h"
#include "platform.h"
}

namespace vmock {

static inline size_t
bpp(SampleType t)
{
    switch (t) {
        case SampleType_u8:
        case SampleType_i8: return 1;
        case SampleType_f32: return 4;
        default: return 2;
    }
}

// pixel byte j of frame k of run r of camera c
static inline uint8_t
prf(uint64_t salt, int cam, int run, uint64_t k, size_t j)
{
    uint64_t v = vh_mix64(salt ^ ((uint64_t)cam << 56) ^ ((uint64_t)run << 40) ^ (k << 16) ^ (j >> 3));
    return (uint8_t)(v >> (8 * (j & 7)));
}
// timestamps.hardware encodes (camera, run, k): frames identify themselves
static inline uint64_t
stamp(int cam, int run, uint64_t k)
{
    return ((uint64_t)(cam + 1) << 56) | ((uint64_t)run << 32) | k;
}

struct Delivered
{
    int run;
    uint64_t k;       // index among delivered frames of the run == expected frame_id
    uint64_t hw_id;
    ImageShape shape;
    uint64_t t_ns;
    std::vector<uint8_t> pixels; // real simulated cameras only: the image bytes the camera wrote (mock cameras: PRF)
};

struct Event
{
    std::string what;
    uint64_t t_ns;
};

struct CamScript
{
    uint32_t period_us = 1000;
    int noframe_every = 0; // every n-th call returns "no frame" (nbytes = 0)
    int gap_every = 0;     // every n-th frame skips a hardware id (frame dropped at the camera)
    int fail_at = -1;      // get_frame returns Device_Err at this call index of the run
    bool fail_start = false;
    bool stop_yields = false;
    float stop_ms = 5.0f;  // how long a yielding stop takes (virtual time)
    int vary = 0;          // >0: frame k is up to `vary` pixels narrower than configured (a pure function of k): frame sizes mix
};

struct StoreScript
{
    float delay_ms = 0;    // virtual time spent inside append
    int fail_at = -1;      // append number (of the run) that reports a non-running state
    bool fail_start = false;
    bool stop_yields = false; // a scheduling point inside stop
};

struct Instance;

struct Hub
{
    VhCase* c = nullptr;
    uint64_t salt = 0x5a17;
    std::vector<Instance*> instances;  // every device ever opened in this case
    CamScript cam_script[4];           // 0,1: scripted mock cameras vcam0/1; 2,3: the shipped simulated cameras vreal0/1 behind a recording proxy
    StoreScript store_script[2];
    int cam_runs[4] = { 0, 0, 0, 0 };  // starts seen so far per camera index (run numbers continue across instances)
    int store_runs[2] = { 0, 0 };
    bool shutdown_seen = false;
    int inits = 0;
    bool refuse_open[6] = { false, false, false, false, false, false }; // one shot: the next open of device id (0,1 cameras; 2,3 storages; 4,5 real cameras) is refused
    int opens_refused = 0;
    int slow_appends = 0;              // appends during which the storage device spent (virtual) time
    const char* lifecycle_prop = "C08";
    const char* context = ""; // appended to the discriminator of life-cycle failures (e.g. "@configure-while-running")
    void reset();
};

extern Hub hub;

struct Packet
{
    int run;
    uintptr_t addr;
    size_t nbytes;
    size_t off; // into bytes of the run
    uint64_t t_ns;
};

struct Instance
{
    union
    {
        Camera cam;
        Storage st;
    } u;
    bool is_cam = true;
    int idx = 0; // vcam0/vcam1/vstore0/vstore1; cameras 2,3 = vreal0/vreal1
    Camera* real = nullptr; // the shipped simulated camera this instance is a proxy for (vreal*)
    int serial = 0;
    bool closed = false;
    int closes = 0;
    bool stopping = false; // inside its stop call (a stop takes time)
    std::vector<uint8_t> snapshot;
    // life cycle
    bool started = false;
    int starts = 0, stops = 0;
    int run = -1;
    std::vector<Event> events;
    // camera
    CameraProperties props;
    ImageShape shape;      // shape of the next frame (what get_image_shape reports)
    uint32_t base_w = 1, base_h = 1;
    uint64_t k = 0, calls = 0, hw = 0;
    bool stop_requested = false;
    int triggers = 0;
    struct lock lock;
    struct condition_variable cond;
    struct clock pace;
    std::vector<Delivered> delivered; // all runs
    // storage
    int appends_in_run = 0;
    std::vector<Packet> packets;
    std::map<int, std::vector<uint8_t>> bytes_by_run;
    std::map<int, bool> stopped_run;
    bool failed_in_run = false;
    int appends_after_failure = 0;
};

struct Driver* driver_init(void (*reporter)(int, const char*, int, const char*, const char*));
void check_released(const char* where);
// every opened instance closed exactly once?  (after acquire_shutdown)
void check_all_closed();
// image bytes camera `cam` delivered as frame k of run `run`: PRF for the mock cameras, the recorded copy for real ones
struct Expected
{
    int cam, run;
    uint64_t k;
    const std::vector<uint8_t>* rec;
    uint8_t at(size_t j) const;
};
Expected expected_pixels(int cam, int run, uint64_t k);
Instance* live_camera(int idx);
Instance* live_storage(int idx);
Instance* last_camera(int idx);
Instance* last_storage(int idx);

} // namespace vmock
