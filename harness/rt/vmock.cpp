// vmock.cpp — see vmock.hpp
#include "vmock.hpp"

extern "C"
{
    // the shipped simulated cameras (acquire-driver-common/src/simcams/simulated.camera.c, compiled into this harness)
    struct Camera* simcam_make_camera(int kind);
    enum DeviceStatusCode simcam_close_camera(struct Camera* camera);
}

#include <cstring>

namespace vmock {

Hub hub;
void (*on_append)(Instance*, const VideoFrame*, size_t) = nullptr;

void
Hub::reset()
{
    for (Instance* i : instances)
        delete i;
    instances.clear();
    for (CamScript& c : cam_script)
        c = CamScript();
    store_script[0] = store_script[1] = StoreScript();
    cam_runs[0] = cam_runs[1] = cam_runs[2] = cam_runs[3] = store_runs[0] = store_runs[1] = 0;
    shutdown_seen = false;
    inits = 0;
    for (bool& b : refuse_open)
        b = false;
    opens_refused = 0;
    slow_appends = 0;
}

static Instance*
inst_of(const void* p)
{
    for (Instance* i : hub.instances)
        if ((const void*)&i->u == p)
            return i;
    return nullptr;
}

static void
ev(Instance* i, const char* what)
{
    i->events.push_back(Event{ what, vsim::now_ns() });
    if (hub.c)
        hub.c->trace("        [%s%d#%d] %s", i->is_cam ? (i->real ? "vreal" : "vcam") : "vstore", i->real ? i->idx - 2 : i->idx, i->serial, what);
}

static bool
lc_fail(Instance* i, const char* check, const char* fmt_what)
{
    if (!hub.c)
        return true;
    char disc[64];
    snprintf(disc, sizeof disc, "%s", i ? (i->is_cam ? "camera" : "storage") : "unknown");
    if (*hub.context) {
        // After a configure-while-running the signature names the history class, not the individual
        // breach: one root cause shows up as many different breaches depending on the schedule.
        char what[200];
        snprintf(what, sizeof what, "[%s|%s] %s", check, disc, fmt_what);
        return hub.c->fail_soft("C08", "lifecycle", hub.context, "%s%d (instance #%d): %s", i ? (i->is_cam ? "vcam" : "vstore") : "?", i ? i->idx : -1, i ? i->serial : -1, what);
    }
    return hub.c->fail_soft(hub.lifecycle_prop, check, disc, "%s%d (instance #%d): %s", i ? (i->is_cam ? "vcam" : "vstore") : "?", i ? i->idx : -1,
                            i ? i->serial : -1, fmt_what);
}

// common entry of every device callback: the device must be open
static Instance*
enter(const void* dev, const char* what)
{
    Instance* i = inst_of(dev);
    if (!i) {
        lc_fail(nullptr, "unknown-device", what);
        return nullptr;
    }
    if (i->closed) {
        char m[128];
        snprintf(m, sizeof m, "%s called after the device was closed", what);
        lc_fail(i, "use-after-close", m);
        return nullptr;
    }
    return i;
}

// --------------------------------------------------------------------------------- camera
// Shape of frame k of the current run (k = ~0: the configured shape).  With CamScript::vary the
// width shrinks by 0..vary pixels from frame to frame, so consecutive frames have different sizes.
static void
shape_for_frame(Instance* i, uint64_t k)
{
    SampleType t = i->shape.type;
    uint32_t w = i->base_w, h = i->base_h;
    int vary = hub.cam_script[i->idx].vary;
    if (k != ~0ull && vary > 0 && w > 1) {
        uint32_t cut = (uint32_t)(vh_mix64(k * 0x9e3779b97f4a7c15ull + 17) % (uint64_t)(vary + 1));
        w = w > cut ? w - cut : 1;
    }
    memset(&i->shape, 0, sizeof i->shape);
    i->shape.dims.channels = 1;
    i->shape.dims.width = w;
    i->shape.dims.height = h;
    i->shape.dims.planes = 1;
    i->shape.strides.channels = 1;
    i->shape.strides.width = 1;
    i->shape.strides.height = w;
    i->shape.strides.planes = (int64_t)w * h;
    i->shape.type = t;
}

static DeviceStatusCode
cam_set(Camera* c, CameraProperties* s)
{
    Instance* i = enter(c, "camera.set");
    if (!i)
        return Device_Err;
    if (i->real) {
        DeviceStatusCode r = i->real->set(i->real, s);
        i->props = *s;
        i->real->get_shape(i->real, &i->shape);
        ev(i, r == Device_Ok ? "set" : "set -> Err");
        return r;
    }
    i->props = *s;
    i->base_w = s->shape.x ? s->shape.x : 1;
    i->base_h = s->shape.y ? s->shape.y : 1;
    i->shape.type = s->pixel_type;
    shape_for_frame(i, ~0ull);
    i->shape.type = s->pixel_type;
    ev(i, "set");
    return Device_Ok;
}
static DeviceStatusCode
cam_get(const Camera* c, CameraProperties* s)
{
    Instance* i = enter(c, "camera.get");
    if (!i)
        return Device_Err;
    if (i->real)
        return i->real->get(i->real, s);
    *s = i->props;
    return Device_Ok;
}
static DeviceStatusCode
cam_get_meta(const Camera* c, CameraPropertyMetadata* m)
{
    Instance* ii = enter(c, "camera.get_meta");
    if (!ii)
        return Device_Err;
    if (ii->real)
        return ii->real->get_meta(ii->real, m);
    memset(m, 0, sizeof *m);
    m->supported_pixel_types = 0xff;
    return Device_Ok;
}
static DeviceStatusCode
cam_get_shape(const Camera* c, ImageShape* s)
{
    Instance* i = enter(c, "camera.get_shape");
    if (!i)
        return Device_Err;
    if (i->real)
        return i->real->get_shape(i->real, s);
    *s = i->shape;
    return Device_Ok;
}
static DeviceStatusCode
cam_start(Camera* c)
{
    Instance* i = enter(c, "camera.start");
    if (!i)
        return Device_Err;
    if (i->stopping)
        lc_fail(i, "start-during-stop", "start called on a camera whose stop call was still in progress");
    else if (i->started)
        lc_fail(i, "start-while-started", "start called on a camera that was started and not stopped");
    if (hub.cam_script[i->idx].fail_start) {
        ev(i, "start -> Err (scripted)");
        return Device_Err;
    }
    if (i->real && i->real->start(i->real) != Device_Ok) {
        ev(i, "start -> Err (simulated camera)");
        return Device_Err;
    }
    i->started = true;
    i->starts++;
    i->run = hub.cam_runs[i->idx]++;
    i->k = i->calls = i->hw = 0;
    if (!i->real)
        shape_for_frame(i, 0);
    i->stop_requested = false;
    i->triggers = 0;
    clock_init(&i->pace);
    ev(i, "start");
    return Device_Ok;
}
static DeviceStatusCode
cam_stop(Camera* c)
{
    Instance* i = enter(c, "camera.stop");
    if (!i)
        return Device_Err;
    if (!i->started)
        lc_fail(i, "stop-without-start", "stop called on a camera that is not started (stop must follow each start exactly once)");
    if (i->stopping)
        lc_fail(i, "stop-reentered", "a second stop reached the camera while its first stop was still in progress");
    ev(i, "stop");
    if (i->real) {
        // the shipped camera's own stop (joins its streamer thread: takes as long as it takes)
        i->stopping = true;
        i->real->stop(i->real);
        i->stopping = false;
        i = enter(c, "camera.stop (while it was stopping)");
        if (!i)
            return Device_Err;
        i->started = false;
        i->stops++;
        i->stop_requested = true;
        return Device_Ok;
    }
    if (hub.cam_script[i->idx].stop_yields) {
        i->stopping = true;
        clock_sleep_ms(nullptr, hub.cam_script[i->idx].stop_ms); // a real stop takes time: other threads run while the camera stops
        i->stopping = false;
        i = enter(c, "camera.stop (while it was stopping)");
        if (!i)
            return Device_Err;
    }
    lock_acquire(&i->lock);
    i->started = false;
    i->stops++;
    i->stop_requested = true;
    lock_release(&i->lock);
    shape_for_frame(i, ~0ull); // idle: the configured shape again
    condition_variable_notify_all(&i->cond);
    return Device_Ok;
}
static DeviceStatusCode
cam_trigger(Camera* c)
{
    Instance* i = enter(c, "camera.execute_trigger");
    if (!i)
        return Device_Err;
    if (i->real) {
        ev(i, "trigger");
        return i->real->execute_trigger(i->real);
    }
    lock_acquire(&i->lock);
    i->triggers++;
    lock_release(&i->lock);
    condition_variable_notify_all(&i->cond);
    ev(i, "trigger");
    return Device_Ok;
}
static DeviceStatusCode
cam_get_frame(Camera* c, void* im, size_t* nbytes, ImageInfo* info)
{
    Instance* i = enter(c, "camera.get_frame");
    if (!i)
        return Device_Err;
    if (!i->started && !i->stop_requested)
        lc_fail(i, "frame-outside-run", "get_frame called on a camera that is not started");
    const CamScript& sc = hub.cam_script[i->idx];
    uint64_t call = i->calls++;
    if (sc.fail_at >= 0 && (uint64_t)sc.fail_at == call) {
        ev(i, "get_frame -> Err (scripted fault)");
        return Device_Err;
    }
    if (i->real) {
        size_t offered = *nbytes;
        DeviceStatusCode r = i->real->get_frame(i->real, im, nbytes, info);
        if (r != Device_Ok) {
            ev(i, "get_frame -> Err (simulated camera)");
            return r;
        }
        i = enter(c, "camera.get_frame (returning)");
        if (!i)
            return Device_Err;
        if (*nbytes == 0)
            return Device_Ok; // no frame (stopped while waiting)
        if (*nbytes > offered)
            lc_fail(i, "frame-larger-than-buffer", "the camera reports more image bytes than the buffer it was given");
        info->hardware_timestamp = stamp(i->idx, i->run, i->k); // frames identify themselves (as with the mock cameras)
        Delivered d{ i->run, i->k, info->hardware_frame_id, info->shape, vsim::now_ns(), {} };
        d.pixels.assign((const uint8_t*)im, (const uint8_t*)im + *nbytes);
        i->delivered.push_back(std::move(d));
        i->k++;
        return Device_Ok;
    }
    if (i->props.input_triggers.frame_start.enable) {
        lock_acquire(&i->lock);
        while (i->triggers == 0 && !i->stop_requested)
            condition_variable_wait(&i->cond, &i->lock);
        bool stop = i->stop_requested && i->triggers == 0;
        if (!stop)
            i->triggers--;
        lock_release(&i->lock);
        if (stop) {
            *nbytes = 0;
            return Device_Ok;
        }
    }
    if (sc.period_us)
        clock_sleep_ms(&i->pace, sc.period_us * 1e-3f);
    if (i->stop_requested) {
        *nbytes = 0;
        return Device_Ok;
    }
    if (sc.noframe_every > 0 && (call + 1) % (uint64_t)sc.noframe_every == 0) {
        *nbytes = 0;
        return Device_Ok;
    }
    size_t need = (size_t)i->shape.strides.planes * bpp(i->shape.type);
    if (*nbytes < need) {
        ev(i, "get_frame -> Err (buffer too small)");
        return Device_Err;
    }
    uint8_t* p = (uint8_t*)im;
    for (size_t j = 0; j < need; ++j)
        p[j] = prf(hub.salt, i->idx, i->run, i->k, j);
    info->shape = i->shape;
    info->hardware_frame_id = i->hw++;
    if (sc.gap_every > 0 && (i->k + 1) % (uint64_t)sc.gap_every == 0)
        i->hw++; // the next frame shows a gap: one frame dropped at the camera
    info->hardware_timestamp = stamp(i->idx, i->run, i->k);
    i->delivered.push_back(Delivered{ i->run, i->k, info->hardware_frame_id, i->shape, vsim::now_ns() });
    i->k++;
    shape_for_frame(i, i->k);
    *nbytes = need;
    return Device_Ok;
}

// --------------------------------------------------------------------------------- storage
static DeviceState
st_set(Storage* s, const StorageProperties*)
{
    Instance* i = enter(s, "storage.set");
    if (!i)
        return DeviceState_AwaitingConfiguration;
    ev(i, "set");
    return DeviceState_Armed;
}
static void
st_get(const Storage* s, StorageProperties*)
{
    enter(s, "storage.get");
}
static void
st_get_meta(const Storage* s, StoragePropertyMetadata* m)
{
    if (enter(s, "storage.get_meta"))
        memset(m, 0, sizeof *m);
}
static DeviceState
st_start(Storage* s)
{
    Instance* i = enter(s, "storage.start");
    if (!i)
        return DeviceState_AwaitingConfiguration;
    if (i->started)
        lc_fail(i, "start-while-started", "start called on a storage device that was started and not stopped");
    if (hub.store_script[i->idx].fail_start) {
        ev(i, "start -> AwaitingConfiguration (scripted)");
        return DeviceState_AwaitingConfiguration;
    }
    i->started = true;
    i->starts++;
    i->run = hub.store_runs[i->idx]++;
    i->appends_in_run = 0;
    i->failed_in_run = false;
    i->bytes_by_run[i->run];
    ev(i, "start");
    return DeviceState_Running;
}
static DeviceState
st_append(Storage* s, const VideoFrame* frames, size_t* nbytes)
{
    Instance* i = enter(s, "storage.append");
    if (!i)
        return DeviceState_AwaitingConfiguration;
    if (!i->started) {
        if (i->failed_in_run)
            i->appends_after_failure++;
        lc_fail(i, "append-outside-run", "append called on a storage device that is not between its start and its stop");
        return DeviceState_AwaitingConfiguration;
    }
    const StoreScript& sc = hub.store_script[i->idx];
    int a = i->appends_in_run++;
    if (sc.delay_ms > 0) {
        // a slow writer works on the packet in place (zero copy): it must not change under it
        std::vector<uint8_t> before((const uint8_t*)frames, (const uint8_t*)frames + *nbytes);
        clock_sleep_ms(nullptr, sc.delay_ms);
        if (hub.c && !hub.c->ended && memcmp(before.data(), frames, *nbytes) != 0) {
            size_t k = 0;
            while (k < *nbytes && before[k] == ((const uint8_t*)frames)[k])
                ++k;
            hub.c->fail_soft("C02", "mapped-region-modified", "storage", "vstore%d: byte %zu of the %zu-byte packet changed while the storage device was inside append", i->idx, k, *nbytes);
        }
        hub.slow_appends++;
    }
    if (sc.fail_at >= 0 && sc.fail_at == a) {
        i->failed_in_run = true;
        i->started = false; // the device left the running state on its own
        ev(i, "append -> AwaitingConfiguration (scripted fault)");
        return DeviceState_AwaitingConfiguration;
    }
    std::vector<uint8_t>& b = i->bytes_by_run[i->run];
    i->packets.push_back(Packet{ i->run, (uintptr_t)frames, *nbytes, b.size(), vsim::now_ns() });
    b.insert(b.end(), (const uint8_t*)frames, (const uint8_t*)frames + *nbytes);
    if (on_append)
        on_append(i, frames, *nbytes);
    return DeviceState_Running;
}
static DeviceState
st_stop(Storage* s)
{
    Instance* i = enter(s, "storage.stop");
    if (!i)
        return DeviceState_AwaitingConfiguration;
    if (!i->started)
        lc_fail(i, "stop-without-start", "stop called on a storage device that is not started");
    if (hub.store_script[i->idx].stop_yields) {
        int serial = i->serial;
        clock_sleep_ms(nullptr, 5.0f); // finalising a file takes time: other threads run while the device stops
        i = enter(s, "storage.stop (while it was stopping)");
        if (!i)
            return DeviceState_AwaitingConfiguration;
        (void)serial;
        if (!i->started)
            lc_fail(i, "stop-without-start", "a second stop reached the storage device while its first stop was still in progress");
    }
    i->started = false;
    i->stops++;
    i->stopped_run[i->run] = true;
    ev(i, "stop");
    return DeviceState_Armed;
}
static void
st_destroy(Storage*)
{
}
static void
st_reserve(Storage* s, const ImageShape*)
{
    Instance* i = enter(s, "storage.reserve_image_shape");
    if (i)
        ev(i, "reserve_image_shape");
}

// --------------------------------------------------------------------------------- driver
static uint32_t
d_count(Driver*)
{
    return 6;
}
static DeviceStatusCode
d_describe(const Driver*, DeviceIdentifier* id, uint64_t i)
{
    if (i >= 6)
        return Device_Err;
    memset(id, 0, sizeof *id);
    id->device_id = (uint8_t)i;
    id->kind = (i < 2 || i >= 4) ? DeviceKind_Camera : DeviceKind_Storage;
    snprintf(id->name, sizeof id->name, "%s%d", i < 2 ? "vcam" : i < 4 ? "vstore" : "vreal", (int)(i % 2));
    return Device_Ok;
}
static DeviceStatusCode
d_open(Driver*, uint64_t id, Device** out)
{
    if (id >= 6)
        return Device_Err;
    if (hub.refuse_open[id]) { // scripted: the device cannot be opened right now (busy, unplugged)
        hub.refuse_open[id] = false;
        hub.opens_refused++;
        return Device_Err;
    }
    Instance* i = new Instance();
    memset(&i->u, 0, sizeof i->u);
    i->is_cam = id < 2 || id >= 4;
    i->idx = id >= 4 ? (int)(id - 2) : (int)(id % 2);
    if (id >= 4) {
        // vreal0: "simulated: uniform random", vreal1: "simulated: radial sin" (BasicDeviceKind 0 and 1)
        i->real = simcam_make_camera((int)(id - 4));
        if (!i->real) {
            delete i;
            return Device_Err;
        }
    }
    i->serial = (int)hub.instances.size();
    memset(&i->props, 0, sizeof i->props);
    memset(&i->shape, 0, sizeof i->shape);
    lock_init(&i->lock);
    condition_variable_init(&i->cond);
    if (i->is_cam) {
        Camera& c = i->u.cam;
        c.state = DeviceState_AwaitingConfiguration;
        c.set = cam_set;
        c.get = cam_get;
        c.get_meta = cam_get_meta;
        c.get_shape = cam_get_shape;
        c.start = cam_start;
        c.stop = cam_stop;
        c.execute_trigger = cam_trigger;
        c.get_frame = cam_get_frame;
        *out = &c.device;
    } else {
        Storage& s = i->u.st;
        s.state = DeviceState_AwaitingConfiguration;
        s.set = st_set;
        s.get = st_get;
        s.get_meta = st_get_meta;
        s.start = st_start;
        s.append = st_append;
        s.stop = st_stop;
        s.destroy = st_destroy;
        s.reserve_image_shape = st_reserve;
        *out = &s.device;
    }
    hub.instances.push_back(i);
    ev(i, "open");
    return Device_Ok;
}
static DeviceStatusCode
d_close(Driver*, Device* in)
{
    Instance* i = inst_of(in);
    if (!i) {
        lc_fail(nullptr, "unknown-device", "close of a pointer the driver never handed out");
        return Device_Err;
    }
    i->closes++;
    if (i->closed) {
        lc_fail(i, "double-close", "device closed twice");
        return Device_Err;
    }
    if (i->stopping)
        lc_fail(i, "close-during-stop", "device closed while its stop call was still in progress");
    else if (i->started)
        lc_fail(i, "close-without-stop", "device closed while started: its start was never followed by a stop");
    i->closed = true;
    ev(i, "close");
    if (i->real) {
        simcam_close_camera(i->real);
        i->real = nullptr;
    }
    i->snapshot.assign((uint8_t*)&i->u, (uint8_t*)&i->u + sizeof i->u);
    return Device_Ok;
}
static DeviceStatusCode
d_shutdown(Driver* d)
{
    hub.shutdown_seen = true;
    delete d;
    return Device_Ok;
}

struct Driver*
driver_init(void (*)(int, const char*, int, const char*, const char*))
{
    Driver* d = new Driver();
    d->device_count = d_count;
    d->describe = d_describe;
    d->open = d_open;
    d->close = d_close;
    d->shutdown = d_shutdown;
    hub.inits++;
    return d;
}

void
check_released(const char* where)
{
    if (!hub.c || hub.c->ended)
        return;
    for (Instance* i : hub.instances)
        if (i->closed) {
            const uint8_t* p = (const uint8_t*)&i->u;
            for (size_t k = 0; k < i->snapshot.size(); ++k)
                if (p[k] != i->snapshot[k]) {
                    char m[160];
                    snprintf(m, sizeof m, "%s: the closed device was written at byte offset %zu", where, k);
                    lc_fail(i, "write-after-close", m);
                    return;
                }
        }
}

void
check_all_closed()
{
    if (!hub.c)
        return;
    for (Instance* i : hub.instances)
        if (!hub.c->ended && i->closes != 1) {
            char m[160];
            snprintf(m, sizeof m, "opened by the runtime and closed %d times by the time the runtime was shut down", i->closes);
            lc_fail(i, "close-count", m);
        }
}

static Instance*
find(bool cam, int idx, bool live_only)
{
    Instance* best = nullptr;
    for (Instance* i : hub.instances)
        if (i->is_cam == cam && i->idx == idx && (!live_only || !i->closed))
            best = i;
    return best;
}
Instance*
live_camera(int idx)
{
    return find(true, idx, true);
}
Instance*
live_storage(int idx)
{
    return find(false, idx, true);
}
Instance*
last_camera(int idx)
{
    return find(true, idx, false);
}
Instance*
last_storage(int idx)
{
    return find(false, idx, false);
}

uint8_t
Expected::at(size_t j) const
{
    if (rec)
        return j < rec->size() ? (*rec)[j] : 0;
    return prf(hub.salt, cam, run, k, j);
}

Expected
expected_pixels(int cam, int run, uint64_t k)
{
    Expected e{ cam, run, k, nullptr };
    if (cam >= 2)
        for (Instance* i : hub.instances)
            if (i->is_cam && i->idx == cam)
                for (auto& d : i->delivered)
                    if (d.run == run && d.k == k)
                        e.rec = &d.pixels;
    return e;
}

} // namespace vmock

// called by the trampoline library (libacquire-driver-zarr.so)
extern "C" struct Driver*
vmock_driver_init(void (*reporter)(int, const char*, int, const char*, const char*))
{
    return vmock::driver_init(reporter);
}
