// Harness `devsel` (C12): the real device manager + loader enumerate and select devices from driver
// libraries placed next to (a private copy of) the executable.  Per case the harness decides, for
// each of the six driver names, whether the library is absent, broken, the real common driver, or
// a trampoline into a scripted mock driver with case-chosen devices.  Oracles: enumeration model,
// independent whole-name case-insensitive matcher for grammar-built patterns, status-only
// contract for raw byte patterns, open/close of every enumerated identifier.
// See DESIGN.md section 3, harness `devsel`.
#include "vhx.hpp"

#include <algorithm>
#include <fcntl.h>
#include <string>
#include <sys/stat.h>
#include <unistd.h>
#include <vector>

extern "C"
{
#include "device/hal/camera.h"
#include "device/hal/device.manager.h"
#include "device/hal/storage.h"
#include "device/kit/driver.h"
#include "logger.h"
}

namespace {

enum
{
    K_SLOT,       // library variant + devices of one driver slot
    K_DEV,        // add a device to a mock slot
    K_SELECT_G,   // select with a grammar pattern built from an enumerated name
    K_SELECT_RAW, // select with raw bytes
    K_GET,        // device_manager_get(index) incl. out of range
    K_OPEN_ALL,   // open + close every enumerated camera/storage identifier
    K_DEFAULTS,   // select_first / select_default
    K_TWO_MANAGERS, // a second device manager over the same libraries; one of the two is destroyed, the other goes on
    K_COUNT
};

const VhKindSpec kKinds[K_COUNT] = {
    { "SLOT", 6, 255, 65535, 0, 0 },          { "DEV", 8, 255, 65535, 65535, 0 },        { "SELECT_G", 10, 255, 65535, 65535, 65535 },
    { "SELECT_RAW", 5, 255, 65535, 65535, 65535 }, { "GET", 2, 255, 65535, 0, 0 },       { "OPEN_ALL", 2, 0, 0, 0, 0 },
    { "DEFAULTS", 1, 7, 0, 0, 0 },                 { "TWO_MANAGERS", 1, 3, 0, 0, 0 },
};

enum
{
    CL_MOCK_DRIVER,
    CL_REAL_COMMON,
    CL_BROKEN_LIB,
    CL_INIT_NULL,
    CL_DESCRIBE_FAILS,
    CL_META_PATTERN,
    CL_VERDICT_DIFFERS_FROM_SUBSTRING,
    CL_VERDICT_DIFFERS_FROM_CASE_SENSITIVE,
    CL_TWO_MATCH,
    CL_NO_MATCH,
    CL_RAW_OK,
    CL_RAW_ERR,
    CL_NUL_PADDED,
    CL_OPENED_ALL,
    CL_DUPLICATE_NAMES,
    CL_BAD_INDEX,
    CL_ODD_KIND,
    CL_TWO_MANAGERS,
};

const VhSpec kSpec = {
    "devsel",
    kKinds,
    K_COUNT,
    50,
    { "C12", nullptr },
    { "mock_driver_loaded", "real_common_driver", "broken_library", "driver_init_returns_null", "describe_fails", "pattern_with_metacharacters",
      "verdict_differs_from_substring_match", "verdict_differs_from_case_sensitive_match", "two_devices_match", "no_device_matches", "raw_pattern_ok",
      "raw_pattern_err", "nul_padded_name", "opened_every_identifier", "duplicate_names", "index_out_of_range", "unusual_kind",
      "second_device_manager_one_destroyed", nullptr },
    { "C12 non-trivial: a pattern with >=1 metacharacter whose verdict differs from substring or case-sensitive matching for some enumerated "
      "name, or >=2 devices matching (first-match order observable), or a driver subset with a broken library",
      nullptr },
};

const char* kSlotName[6] = { "acquire-driver-common", "acquire-driver-hdcam", "acquire-driver-zarr", "acquire-driver-egrabber", "acquire-driver-spinnaker",
                             "acquire-driver-pvcam" };

enum Variant
{
    V_ABSENT,
    V_MOCK,
    V_NOENTRY,
    V_NOTELF,
    V_INIT_NULL,
    V_REAL // slot 0 only: the real acquire-driver-common
};

struct MDev
{
    std::string name;
    DeviceKind kind;
    bool describe_ok;
};

struct Slot
{
    Variant v = V_ABSENT;
    std::vector<MDev> devs;
};

struct Enumerated
{
    int slot;
    int device_id;
    bool ok;
    std::string name;
    DeviceKind kind;
};

struct MockDevice
{
    union
    {
        Camera cam;
        Storage st;
    } u;
    bool is_cam;
};

struct Ctx
{
    VhCase c;
    Slot slots[6];
    std::vector<Enumerated> en;
    DeviceManager dm;
    bool inited = false;
};

Ctx* g = nullptr;
std::string g_dir, g_helpers;

void
reporter(int, const char*, int, const char*, const char*)
{
}

// ---------------------------------------------------------------------------------- mock driver
struct MockDriver
{
    Driver d;
    int slot;
};

uint32_t
md_count(Driver* d)
{
    return (uint32_t)g->slots[((MockDriver*)d)->slot].devs.size();
}
DeviceStatusCode
md_describe(const Driver* d, DeviceIdentifier* id, uint64_t i)
{
    const Slot& s = g->slots[((const MockDriver*)d)->slot];
    if (i >= s.devs.size() || !s.devs[i].describe_ok)
        return Device_Err; // a clean driver: writes nothing on failure
    memset(id, 0, sizeof *id);
    id->device_id = (uint8_t)i;
    id->kind = s.devs[i].kind;
    size_t n = std::min(s.devs[i].name.size(), sizeof(id->name) - 1);
    memcpy(id->name, s.devs[i].name.data(), n);
    return Device_Ok;
}
DeviceStatusCode c_set(Camera*, CameraProperties*) { return Device_Ok; }
DeviceStatusCode c_get(const Camera*, CameraProperties*) { return Device_Ok; }
DeviceStatusCode c_meta(const Camera*, CameraPropertyMetadata*) { return Device_Ok; }
DeviceStatusCode c_shape(const Camera*, ImageShape*) { return Device_Ok; }
DeviceStatusCode c_start(Camera*) { return Device_Ok; }
DeviceStatusCode c_frame(Camera*, void*, size_t*, ImageInfo*) { return Device_Ok; }
DeviceState s_set(Storage*, const StorageProperties*) { return DeviceState_Armed; }
void s_get(const Storage*, StorageProperties*) {}
void s_meta(const Storage*, StoragePropertyMetadata*) {}
DeviceState s_start(Storage*) { return DeviceState_Running; }
DeviceState s_append(Storage*, const VideoFrame*, size_t*) { return DeviceState_Running; }
DeviceState s_stop(Storage*) { return DeviceState_Armed; }
void s_destroy(Storage*) {}
void s_reserve(Storage*, const ImageShape*) {}

DeviceStatusCode
md_open(Driver* d, uint64_t i, Device** out)
{
    const Slot& s = g->slots[((MockDriver*)d)->slot];
    if (i >= s.devs.size())
        return Device_Err;
    MockDevice* m = new MockDevice();
    memset(&m->u, 0, sizeof m->u);
    m->is_cam = s.devs[i].kind == DeviceKind_Camera;
    if (m->is_cam) {
        Camera& c = m->u.cam;
        c.state = DeviceState_AwaitingConfiguration;
        c.set = c_set;
        c.get = c_get;
        c.get_meta = c_meta;
        c.get_shape = c_shape;
        c.start = c_start;
        c.stop = c_start;
        c.execute_trigger = c_start;
        c.get_frame = c_frame;
        *out = &c.device;
    } else {
        Storage& st = m->u.st;
        st.state = DeviceState_AwaitingConfiguration;
        st.set = s_set;
        st.get = s_get;
        st.get_meta = s_meta;
        st.start = s_start;
        st.append = s_append;
        st.stop = s_stop;
        st.destroy = s_destroy;
        st.reserve_image_shape = s_reserve;
        *out = &st.device;
    }
    return Device_Ok;
}
DeviceStatusCode
md_close(Driver*, Device* in)
{
    delete (MockDevice*)in; // the union is the first member
    return Device_Ok;
}
DeviceStatusCode
md_shutdown(Driver* d)
{
    delete (MockDriver*)d;
    return Device_Ok;
}

// ---------------------------------------------------------------------------------- pattern AST
struct Node
{
    enum T
    {
        Lit,
        Any,
        Set,
        Star,
        Plus,
        Opt,
        Alt
    } t;
    char ch = 0;
    bool bare = false; // Alt only: render as a|b without a group (top level of the pattern)
    std::string set;
    std::vector<Node> a, b; // Star/Plus/Opt: a = body; Alt: a | b
};
using Seq = std::vector<Node>;

char
lower(char c)
{
    return (c >= 'A' && c <= 'Z') ? (char)(c + 32) : c;
}

bool match_seq(const Seq& p, size_t pi, const std::string& s, size_t si);

// all end positions reachable by matching node n at si
void
match_node(const Node& n, const std::string& s, size_t si, std::vector<size_t>& ends, int depth = 0)
{
    switch (n.t) {
        case Node::Lit:
            if (si < s.size() && lower(s[si]) == lower(n.ch))
                ends.push_back(si + 1);
            break;
        case Node::Any:
            if (si < s.size() && s[si] != '\n' && s[si] != '\r')
                ends.push_back(si + 1);
            break;
        case Node::Set:
            if (si < s.size())
                for (char c : n.set)
                    if (lower(c) == lower(s[si])) {
                        ends.push_back(si + 1);
                        break;
                    }
            break;
        case Node::Opt: {
            ends.push_back(si);
            std::vector<size_t> e1;
            // body is a sequence
            std::vector<size_t> cur{ si };
            for (const Node& m : n.a) {
                std::vector<size_t> nxt;
                for (size_t q : cur)
                    match_node(m, s, q, nxt, depth + 1);
                cur.swap(nxt);
            }
            for (size_t q : cur)
                ends.push_back(q);
            break;
        }
        case Node::Star:
        case Node::Plus: {
            std::vector<size_t> frontier{ si };
            std::vector<bool> seen(s.size() + 2, false);
            if (n.t == Node::Star)
                ends.push_back(si);
            seen[si] = true;
            while (!frontier.empty()) {
                std::vector<size_t> cur = frontier, nxt;
                for (const Node& m : n.a) {
                    nxt.clear();
                    for (size_t q : cur)
                        match_node(m, s, q, nxt, depth + 1);
                    cur = nxt;
                }
                frontier.clear();
                for (size_t q : cur) {
                    ends.push_back(q);
                    if (!seen[q]) {
                        seen[q] = true;
                        frontier.push_back(q);
                    }
                }
            }
            break;
        }
        case Node::Alt: {
            for (const Seq* alt : { &n.a, &n.b }) {
                std::vector<size_t> cur{ si };
                for (const Node& m : *alt) {
                    std::vector<size_t> nxt;
                    for (size_t q : cur)
                        match_node(m, s, q, nxt, depth + 1);
                    cur.swap(nxt);
                }
                for (size_t q : cur)
                    ends.push_back(q);
            }
            break;
        }
    }
}

// whole-string match
bool
full_match(const Seq& p, const std::string& s)
{
    std::vector<size_t> cur{ 0 };
    for (const Node& m : p) {
        std::vector<size_t> nxt;
        for (size_t q : cur)
            match_node(m, s, q, nxt);
        std::sort(nxt.begin(), nxt.end());
        nxt.erase(std::unique(nxt.begin(), nxt.end()), nxt.end());
        cur.swap(nxt);
        if (cur.empty())
            return false;
    }
    for (size_t q : cur)
        if (q == s.size())
            return true;
    return false;
}

bool
is_meta(char c)
{
    return strchr("^$\\.*+?()[]{}|", c) != nullptr;
}

void
render_seq(const Seq& p, std::string& out)
{
    for (const Node& n : p) {
        switch (n.t) {
            case Node::Lit:
                if (is_meta(n.ch))
                    out += '\\';
                out += n.ch;
                break;
            case Node::Any: out += '.'; break;
            case Node::Set:
                out += '[';
                for (char c : n.set) {
                    if (c == ']' || c == '\\' || c == '^' || c == '-' || c == '[')
                        out += '\\';
                    out += c;
                }
                out += ']';
                break;
            case Node::Star:
            case Node::Plus:
            case Node::Opt:
                out += "(?:";
                render_seq(n.a, out);
                out += ')';
                out += n.t == Node::Star ? '*' : n.t == Node::Plus ? '+' : '?';
                break;
            case Node::Alt:
                if (n.bare && p.size() == 1) {
                    render_seq(n.a, out);
                    out += '|';
                    render_seq(n.b, out);
                    break;
                }
                out += "(?:";
                render_seq(n.a, out);
                out += '|';
                render_seq(n.b, out);
                out += ')';
                break;
        }
    }
}

Seq
literal_seq(const std::string& s)
{
    Seq p;
    for (char c : s) {
        Node n;
        n.t = Node::Lit;
        n.ch = c;
        p.push_back(n);
    }
    return p;
}

// ---------------------------------------------------------------------------------- names
std::string
make_name(uint16_t sel, uint16_t sel2)
{
    static const char* base[] = { "cam",         "store",        "simulated: uniform random", "raw",     "tiff",       "Tiff-JSON", "a.b",        "x(1)",
                                  "[raw]",       "a+b",          "what?",                     "star*",   "pipe|name",  "back\\slash", "dollar$",   "^caret",
                                  "brace{2}",    "two words",    "UPPER",                     "MiXeD",   "trash",      "",          "0",          "cam",
                                  "device-0001", "percent%s%n",  "tab\there",                 "quote\"", "vcam0",      "zarr",      "ZarrV3",     "q" };
    std::string n = base[sel % 32];
    switch ((sel >> 5) % 8) {
        case 1: n += std::to_string(sel2 % 10); break;
        case 2: n = n + n; break;
        case 3:
            for (char& c : n)
                if (c >= 'a' && c <= 'z')
                    c = (char)(c - 32);
            break;
        case 4: n += std::string(1 + sel2 % 240, 'x'); break; // long
        case 5: n = std::string(1, (char)('!' + sel2 % 90)) + n; break;
        default: break;
    }
    if (n.size() > 255)
        n.resize(255);
    // no line terminators ('.' excludes them in ECMAScript) and no NULs inside names
    for (char& c : n)
        if (c == '\n' || c == '\r' || c == 0)
            c = '_';
    return n;
}

// ---------------------------------------------------------------------------------- file layout
bool
copy_file(const std::string& from, const std::string& to)
{
    FILE* a = fopen(from.c_str(), "rb");
    if (!a)
        return false;
    FILE* b = fopen(to.c_str(), "wb");
    if (!b) {
        fclose(a);
        return false;
    }
    char buf[65536];
    size_t n;
    while ((n = fread(buf, 1, sizeof buf, a)) > 0)
        fwrite(buf, 1, n, b);
    fclose(a);
    fclose(b);
    chmod(to.c_str(), 0755);
    return true;
}

void
lay_out_libraries(Ctx& x)
{
    for (int s = 0; s < 6; ++s) {
        std::string dst = g_dir + "/lib" + kSlotName[s] + ".so";
        unlink(dst.c_str());
        switch (x.slots[s].v) {
            case V_ABSENT: break;
            case V_MOCK:
            case V_INIT_NULL: copy_file(g_helpers + "/tramp" + std::to_string(s) + ".so", dst); break;
            case V_NOENTRY: copy_file(g_helpers + "/noentry.so", dst); break;
            case V_NOTELF: {
                FILE* f = fopen(dst.c_str(), "w");
                if (f) {
                    fputs("this is not a shared library\n", f);
                    fclose(f);
                }
                break;
            }
            case V_REAL: copy_file(g_helpers + "/common.so", dst); break;
        }
    }
}

// ---------------------------------------------------------------------------------- model
void
build_enumeration(Ctx& x)
{
    x.en.clear();
    static const struct
    {
        const char* name;
        DeviceKind kind;
    } real[7] = { { "simulated: uniform random", DeviceKind_Camera }, { "simulated: radial sin", DeviceKind_Camera }, { "simulated: empty", DeviceKind_Camera },
                  { "raw", DeviceKind_Storage },                      { "tiff", DeviceKind_Storage },                 { "trash", DeviceKind_Storage },
                  { "tiff-json", DeviceKind_Storage } };
    for (int s = 0; s < 6; ++s) {
        const Slot& sl = x.slots[s];
        if (sl.v == V_REAL)
            for (int i = 0; i < 7; ++i)
                x.en.push_back(Enumerated{ s, i, true, real[i].name, real[i].kind });
        else if (sl.v == V_MOCK)
            for (size_t i = 0; i < sl.devs.size(); ++i)
                x.en.push_back(Enumerated{ s, (int)i, sl.devs[i].describe_ok, sl.devs[i].name.substr(0, 255), sl.devs[i].kind });
    }
}

void
ensure_init(Ctx& x)
{
    if (x.inited)
        return;
    lay_out_libraries(x);
    build_enumeration(x);
    memset(&x.dm, 0, sizeof x.dm);
    std::string desc;
    for (int s = 0; s < 6; ++s) {
        static const char* vn[] = { "absent", "mock", "no-entry-point", "not-ELF", "init-returns-NULL", "real" };
        desc += std::string(s ? " " : "") + (kSlotName[s] + 15) + "=" + vn[x.slots[s].v];
        if (x.slots[s].v == V_MOCK)
            desc += "(" + std::to_string(x.slots[s].devs.size()) + ")";
        if (x.slots[s].v == V_MOCK && !x.slots[s].devs.empty())
            x.c.cls(CL_MOCK_DRIVER);
        if (x.slots[s].v == V_REAL)
            x.c.cls(CL_REAL_COMMON);
        if (x.slots[s].v == V_NOENTRY || x.slots[s].v == V_NOTELF) {
            x.c.cls(CL_BROKEN_LIB);
            x.c.nontrivial(0);
        }
        if (x.slots[s].v == V_INIT_NULL)
            x.c.cls(CL_INIT_NULL);
        for (auto& d : x.slots[s].devs)
            if (x.slots[s].v == V_MOCK && !d.describe_ok)
                x.c.cls(CL_DESCRIBE_FAILS);
    }
    x.c.trace("INIT device manager with libraries: %s", desc.c_str());
    for (auto& e : x.en)
        x.c.trace("    [%d.%d] %s kind=%d \"%.60s\"%s", e.slot, e.device_id, e.ok ? "ok " : "ERR", (int)e.kind, e.name.c_str(), e.name.size() > 60 ? "..." : "");
    if (device_manager_init(&x.dm, reporter) != Device_Ok) {
        x.c.fail("C12", "init-failed", "device-manager", "device_manager_init returned an error");
        return;
    }
    x.inited = true;
    // enumeration model
    uint32_t n = device_manager_count(&x.dm);
    if (n != x.en.size()) {
        x.c.fail("C12", "enumeration-count", n > x.en.size() ? "more" : "fewer", "device_manager_count is %u, the loaded drivers describe %zu devices", n, x.en.size());
        return;
    }
    std::vector<std::string> names;
    for (uint32_t i = 0; i < n && !x.c.ended; ++i) {
        DeviceIdentifier id;
        memset(&id, 0x5a, sizeof id);
        DeviceStatusCode r = device_manager_get(&id, &x.dm, i);
        const Enumerated& e = x.en[i];
        if (!e.ok) {
            if (r == Device_Ok)
                x.c.fail("C12", "enumeration-entry", "failed-describe-reported-ok", "device_manager_get(%u) succeeded although the driver failed to describe that device", i);
            continue;
        }
        if (r != Device_Ok) {
            x.c.fail("C12", "enumeration-entry", "error", "device_manager_get(%u) failed for a device the driver described", i);
            break;
        }
        if (id.driver_id != e.slot || id.device_id != e.device_id || id.kind != e.kind || e.name != id.name) {
            x.c.fail("C12", "enumeration-entry", "mismatch", "device_manager_get(%u) = (driver %u, device %u, kind %d, \"%.40s\"); expected (driver %d, device %d, kind %d, \"%.40s\")",
                     i, id.driver_id, id.device_id, (int)id.kind, id.name, e.slot, e.device_id, (int)e.kind, e.name.c_str());
            break;
        }
        for (auto& o : names)
            if (o == e.name)
                x.c.cls(CL_DUPLICATE_NAMES);
        names.push_back(e.name);
    }
}

// first enumerated, successfully described device of `kind` for which pred(name) holds
template<typename Pred>
int
model_select(Ctx& x, DeviceKind kind, Pred pred)
{
    for (size_t i = 0; i < x.en.size(); ++i)
        if (x.en[i].ok && x.en[i].kind == kind && pred(x.en[i].name))
            return (int)i;
    return -1;
}

void
check_selected(Ctx& x, const char* what, DeviceStatusCode r, const DeviceIdentifier& id, int want, DeviceKind kind, const std::string& pat)
{
    if (want < 0) {
        if (r == Device_Ok)
            x.c.fail("C12", "select-unexpected-match", what, "select(kind %d, \"%.80s\") returned \"%.40s\" (driver %u, device %u) but no enumerated device of that kind matches", (int)kind,
                     pat.c_str(), id.name, id.driver_id, id.device_id);
        return;
    }
    const Enumerated& e = x.en[want];
    if (r != Device_Ok) {
        x.c.fail("C12", "select-missed", what, "select(kind %d, \"%.80s\") failed; the first matching enumerated device is [%d.%d] \"%.40s\"", (int)kind, pat.c_str(), e.slot, e.device_id,
                 e.name.c_str());
        return;
    }
    if (id.driver_id != e.slot || id.device_id != e.device_id || id.kind != e.kind || e.name != id.name)
        x.c.fail("C12", "select-wrong-device", what, "select(kind %d, \"%.80s\") returned (driver %u, device %u, \"%.40s\"); the first matching enumerated device is [%d.%d] \"%.40s\"",
                 (int)kind, pat.c_str(), id.driver_id, id.device_id, id.name, e.slot, e.device_id, e.name.c_str());
}

// open + close every enumerated, successfully described camera / storage identifier through `dm`
void
open_all(Ctx& x, DeviceManager* dm)
{
    for (size_t i = 0; i < x.en.size() && !x.c.ended; ++i) {
        const Enumerated& e = x.en[i];
        if (!e.ok || (e.kind != DeviceKind_Camera && e.kind != DeviceKind_Storage))
            continue;
        DeviceIdentifier id;
        if (device_manager_get(&id, dm, (uint32_t)i) != Device_Ok)
            continue;
        if (e.kind == DeviceKind_Camera) {
            Camera* c = camera_open(dm, &id);
            if (!c) {
                x.c.fail("C12", "open-failed", "camera", "camera_open failed for enumerated identifier [%d.%d] \"%.40s\"", e.slot, e.device_id, e.name.c_str());
                break;
            }
            if (c->device.identifier.kind != DeviceKind_Camera || e.name != c->device.identifier.name)
                x.c.fail("C12", "open-wrong-device", "camera", "opening [%d.%d] \"%.40s\" gave a device that calls itself kind %d \"%.40s\"", e.slot, e.device_id,
                         e.name.c_str(), (int)c->device.identifier.kind, c->device.identifier.name);
            camera_close(c);
        } else {
            Storage* s = storage_open(dm, &id);
            if (!s) {
                x.c.fail("C12", "open-failed", "storage", "storage_open failed for enumerated identifier [%d.%d] \"%.40s\"", e.slot, e.device_id, e.name.c_str());
                break;
            }
            if (s->device.identifier.kind != DeviceKind_Storage || e.name != s->device.identifier.name)
                x.c.fail("C12", "open-wrong-device", "storage", "opening [%d.%d] \"%.40s\" gave a device that calls itself kind %d \"%.40s\"", e.slot, e.device_id,
                         e.name.c_str(), (int)s->device.identifier.kind, s->device.identifier.name);
            storage_close(s);
        }
    }
}

} // namespace

// called by the trampolines
extern "C" struct Driver*
vmock_devsel_init(int slot, void (*)(int, const char*, int, const char*, const char*))
{
    if (!g || slot < 0 || slot > 5 || g->slots[slot].v == V_INIT_NULL)
        return nullptr;
    MockDriver* m = new MockDriver();
    m->slot = slot;
    m->d.device_count = md_count;
    m->d.describe = md_describe;
    m->d.open = md_open;
    m->d.close = md_close;
    m->d.shutdown = md_shutdown;
    return &m->d;
}

extern "C" const VhSpec*
vh_spec(void)
{
    return &kSpec;
}

// The loader looks for driver libraries in the directory of the running executable.  Each worker
// therefore runs a private copy of the executable, in a directory it can rearrange per case.
static void
ensure_private_copy()
{
    static bool done = false;
    if (done)
        return;
    done = true;
    char self[4096];
    ssize_t n = readlink("/proc/self/exe", self, sizeof self - 1);
    if (n <= 0)
        return;
    self[n] = 0;
    std::string exe = self;
    std::string dir = exe.substr(0, exe.rfind('/'));
    if (getenv("VH_DEVSEL_PRIVATE")) {
        g_dir = dir;
        g_helpers = getenv("VH_DEVSEL_PRIVATE");
        return;
    }
    std::string priv = std::string(vh_scratch ? vh_scratch : "/tmp") + "/devsel-bin";
    mkdir(priv.c_str(), 0755);
    std::string copy = priv + "/" + exe.substr(exe.rfind('/') + 1);
    if (!copy_file(exe, copy))
        return;
    setenv("VH_DEVSEL_PRIVATE", (dir + "/helpers").c_str(), 1);
    // re-exec with the same arguments
    std::vector<std::string> args;
    if (FILE* f = fopen("/proc/self/cmdline", "rb")) {
        std::string cur;
        int ch;
        while ((ch = fgetc(f)) != EOF) {
            if (ch == 0) {
                args.push_back(cur);
                cur.clear();
            } else
                cur += (char)ch;
        }
        fclose(f);
    }
    std::vector<char*> argv;
    for (auto& a : args)
        argv.push_back((char*)a.c_str());
    if (!argv.empty())
        argv[0] = (char*)copy.c_str();
    argv.push_back(nullptr);
    execv(copy.c_str(), argv.data());
    // exec failed: fall through and run in place (libraries next to the build output)
    g_dir = dir;
    g_helpers = dir + "/helpers";
}

extern "C" int
vh_run(const VhTok* tape, size_t n, VhReport* rep)
{
    ensure_private_copy();
    Ctx* px = new Ctx();
    Ctx& x = *px;
    g = px;
    x.c.begin(rep, &kSpec);
    logger_set_reporter(reporter);
    // defaults: the real common driver, nothing else
    x.slots[0].v = V_REAL;

    for (size_t ti = 0; ti < n && !x.c.ended; ++ti) {
        const VhTok& t = tape[ti];
        int kind = t.kind % K_COUNT;
        rep->steps++;
        x.c.mix(kind * 911u + t.a);
        x.c.mix(((uint64_t)t.b << 32) | ((uint64_t)t.c << 16) | t.d);
        switch (kind) {
            case K_SLOT: {
                if (x.inited)
                    break; // the library layout is fixed once the manager exists
                int s = t.a % 6;
                unsigned v = (t.a / 6) % 8;
                if (s == 0)
                    x.slots[0].v = v < 5 ? V_REAL : v == 5 ? V_ABSENT : v == 6 ? V_NOENTRY : V_MOCK;
                else
                    x.slots[s].v = v < 3 ? V_MOCK : v == 3 ? V_ABSENT : v == 4 ? V_NOENTRY : v == 5 ? V_NOTELF : v == 6 ? V_INIT_NULL : V_MOCK;
                if (x.slots[s].v == V_MOCK && x.slots[s].devs.empty()) {
                    // a couple of devices right away
                    int nd = 1 + t.b % 3;
                    for (int i = 0; i < nd; ++i) {
                        uint16_t h = (uint16_t)vh_mix64(t.b * 7u + i);
                        x.slots[s].devs.push_back(MDev{ make_name(h, (uint16_t)(h >> 3)), (h >> 9) & 1 ? DeviceKind_Camera : DeviceKind_Storage, true });
                    }
                }
                break;
            }
            case K_DEV: {
                if (x.inited)
                    break;
                int s = 1 + t.a % 5;
                if (x.slots[s].v != V_MOCK) {
                    x.slots[s].v = V_MOCK;
                    x.slots[s].devs.clear();
                }
                if (x.slots[s].devs.size() >= 8)
                    break;
                static const DeviceKind kinds[8] = { DeviceKind_Camera, DeviceKind_Storage, DeviceKind_Camera,   DeviceKind_Storage,
                                                     DeviceKind_Camera, DeviceKind_Storage, DeviceKind_StageAxis, DeviceKind_Signals };
                MDev d{ make_name(t.b, t.c), kinds[(t.a / 5) % 8], (t.a / 40) % 6 != 0 };
                if (d.kind != DeviceKind_Camera && d.kind != DeviceKind_Storage)
                    x.c.cls(CL_ODD_KIND);
                x.slots[s].devs.push_back(d);
                break;
            }
            case K_SELECT_G: {
                ensure_init(x);
                if (x.c.ended || x.en.empty())
                    break;
                // target: an enumerated device
                const Enumerated& tgt = x.en[t.a % x.en.size()];
                if (!tgt.ok)
                    break;
                Seq p = literal_seq(tgt.name);
                bool has_meta = false;
                uint64_t h = vh_mix64(((uint64_t)t.b << 32) | ((uint64_t)t.c << 16) | t.d);
                int nsteps = 1 + (h % 4);
                for (int st = 0; st < nsteps; ++st) {
                    h = vh_mix64(h);
                    unsigned op = h % 12;
                    size_t len = p.size();
                    size_t pos = len ? (h >> 8) % len : 0;
                    switch (op) {
                        case 0: // flip the case of a letter
                            if (len && p[pos].t == Node::Lit) {
                                char c = p[pos].ch;
                                if (c >= 'a' && c <= 'z')
                                    p[pos].ch = (char)(c - 32);
                                else if (c >= 'A' && c <= 'Z')
                                    p[pos].ch = (char)(c + 32);
                            }
                            break;
                        case 1: // a character becomes '.'
                            if (len) {
                                p[pos] = Node();
                                p[pos].t = Node::Any;
                                has_meta = true;
                            }
                            break;
                        case 2: // a character becomes a set containing it
                            if (len && p[pos].t == Node::Lit) {
                                Node s2;
                                s2.t = Node::Set;
                                s2.set = std::string(1, p[pos].ch) + "qZ7";
                                p[pos] = s2;
                                has_meta = true;
                            }
                            break;
                        case 3: { // a substring becomes .*
                            if (!len)
                                break;
                            size_t e = pos + 1 + (h >> 20) % (len - pos);
                            Node any;
                            any.t = Node::Any;
                            Node star;
                            star.t = Node::Star;
                            star.a.push_back(any);
                            p.erase(p.begin() + pos, p.begin() + e);
                            p.insert(p.begin() + pos, star);
                            has_meta = true;
                            break;
                        }
                        case 4: // x -> x+
                            if (len && p[pos].t == Node::Lit) {
                                Node pl;
                                pl.t = Node::Plus;
                                pl.a.push_back(p[pos]);
                                p[pos] = pl;
                                has_meta = true;
                            }
                            break;
                        case 5: { // insert q* / q? (matches nothing)
                            Node q;
                            q.t = Node::Lit;
                            q.ch = 'q';
                            Node z;
                            z.t = (h >> 30) & 1 ? Node::Star : Node::Opt;
                            z.a.push_back(q);
                            p.insert(p.begin() + pos, z);
                            has_meta = true;
                            break;
                        }
                        case 6: { // alternation (x|zz) in place of x
                            if (!len || p[pos].t != Node::Lit)
                                break;
                            Node alt;
                            alt.t = Node::Alt;
                            alt.a.push_back(p[pos]);
                            alt.b = literal_seq("zz");
                            if ((h >> 31) & 1)
                                std::swap(alt.a, alt.b);
                            p[pos] = alt;
                            has_meta = true;
                            break;
                        }
                        case 7: // breaking: drop a character
                            if (len)
                                p.erase(p.begin() + pos);
                            break;
                        case 8: { // breaking: extra character at the end
                            Node q;
                            q.t = Node::Lit;
                            q.ch = "x.Q"[(h >> 33) % 3];
                            p.push_back(q);
                            break;
                        }
                        case 9: // breaking: proper prefix only
                            if (len > 1)
                                p.resize(1 + (h >> 24) % (len - 1));
                            break;
                        case 10: { // .* prefix and suffix: substring semantics spelled out
                            Node any;
                            any.t = Node::Any;
                            Node star;
                            star.t = Node::Star;
                            star.a.push_back(any);
                            p.insert(p.begin(), star);
                            p.push_back(star);
                            has_meta = true;
                            break;
                        }
                        default: break;
                    }
                }
                if ((h >> 40) % 4 == 0 && !x.en.empty()) {
                    // top-level alternation without a group: "<pattern so far>|<piece of another name>".
                    // '|' binds loosest, so this is still a whole-name match of either branch.
                    const Enumerated& other = x.en[(h >> 44) % x.en.size()];
                    std::string piece = other.name;
                    if (piece.size() > 1) {
                        size_t cut = 1 + (h >> 50) % (piece.size() - 1);
                        piece = ((h >> 43) & 1) ? piece.substr(cut) : piece.substr(0, cut); // a proper suffix or prefix
                    }
                    if (!piece.empty()) {
                        Node alt;
                        alt.t = Node::Alt;
                        alt.bare = true;
                        alt.a = p;
                        alt.b = literal_seq(piece);
                        if ((h >> 42) & 1)
                            std::swap(alt.a, alt.b);
                        p.clear();
                        p.push_back(alt);
                        has_meta = true;
                    }
                }
                std::string pat;
                render_seq(p, pat);
                for (char ch : tgt.name)
                    has_meta |= is_meta(ch);
                if (pat.size() > 255 || pat.empty())
                    break;
                DeviceKind kind2 = tgt.kind;
                // model verdicts
                int want = model_select(x, kind2, [&](const std::string& nm) { return full_match(p, nm); });
                int nmatch = 0;
                bool differs_sub = false, differs_case = false;
                std::string lowpat = pat;
                for (auto& e : x.en)
                    if (e.ok && e.kind == kind2) {
                        bool m = full_match(p, e.name);
                        nmatch += m;
                        // what naive alternatives would say
                        std::string plain;
                        bool pure_lit = true;
                        for (auto& nd : p) {
                            if (nd.t != Node::Lit)
                                pure_lit = false;
                            else
                                plain += nd.ch;
                        }
                        if (pure_lit) {
                            bool sub = false; // case-insensitive substring
                            std::string ln = e.name, lp = plain;
                            for (char& c : ln)
                                c = lower(c);
                            for (char& c : lp)
                                c = lower(c);
                            sub = ln.find(lp) != std::string::npos;
                            if (sub != m)
                                differs_sub = true;
                            if ((e.name == plain) != m)
                                differs_case = true;
                        }
                    }
                if (has_meta)
                    x.c.cls(CL_META_PATTERN);
                if (differs_sub)
                    x.c.cls(CL_VERDICT_DIFFERS_FROM_SUBSTRING);
                if (differs_case)
                    x.c.cls(CL_VERDICT_DIFFERS_FROM_CASE_SENSITIVE);
                if (nmatch >= 2)
                    x.c.cls(CL_TWO_MATCH);
                if (nmatch == 0)
                    x.c.cls(CL_NO_MATCH);
                if ((has_meta && (differs_sub || differs_case)) || nmatch >= 2 || differs_sub || differs_case)
                    x.c.nontrivial(0);
                // NUL padding: the documented rule strips trailing NULs
                std::string sent = pat;
                size_t pad = (t.a / 16) % 4 == 0 ? 1 + (t.b % 3) : 0;
                if (pad) {
                    sent.append(pad, '\0');
                    x.c.cls(CL_NUL_PADDED);
                }
                DeviceIdentifier id;
                memset(&id, 0, sizeof id);
                x.c.trace("SELECT kind=%d pattern=\"%s\"%s   (built from [%d.%d] \"%.40s\"; model: %s)", (int)kind2, pat.c_str(), pad ? " +NUL padding" : "", tgt.slot, tgt.device_id,
                          tgt.name.c_str(), want < 0 ? "no match" : x.en[want].name.c_str());
                DeviceStatusCode r = device_manager_select(&x.dm, kind2, sent.data(), sent.size(), &id);
                check_selected(x, "grammar", r, id, want, kind2, pat);
                break;
            }
            case K_SELECT_RAW: {
                ensure_init(x);
                if (x.c.ended)
                    break;
                // arbitrary bytes, arbitrary kind
                size_t len = t.a % 64;
                if (t.a >= 250)
                    len = 255;
                std::string raw(len, '\0');
                uint64_t h = ((uint64_t)t.b << 32) | ((uint64_t)t.c << 16) | t.d;
                static const char special[] = "[]()\\{}*+?|^$.,-09az\0\xff";
                for (size_t i = 0; i < len; ++i) {
                    h = vh_mix64(h + i);
                    raw[i] = (h >> 7) % 3 == 0 ? special[(h >> 11) % (sizeof special)] : (char)(h >> 23);
                }
                int kindv = (int)((t.d >> 8) % 10) - 1; // -1 .. 8: includes out-of-range values
                DeviceIdentifier id;
                memset(&id, 0, sizeof id);
                // exact-size heap buffer for the bytes
                char* buf = (char*)malloc(len ? len : 1);
                memcpy(buf, raw.data(), len);
                x.c.trace("SELECT_RAW kind=%d %zu raw bytes", kindv, len);
                DeviceStatusCode r = device_manager_select(&x.dm, (DeviceKind)kindv, len ? buf : nullptr, len, &id);
                free(buf);
                if (r != Device_Ok && r != Device_Err) {
                    x.c.fail("C12", "select-status", "neither", "device_manager_select returned status %d", (int)r);
                    break;
                }
                if (r == Device_Ok) {
                    x.c.cls(CL_RAW_OK);
                    bool found = false;
                    for (auto& e : x.en)
                        if (e.ok && e.slot == id.driver_id && e.device_id == id.device_id && e.kind == id.kind && e.name == id.name && (int)e.kind == kindv)
                            found = true;
                    if (!found)
                        x.c.fail("C12", "select-raw-bogus", kindv < 1 || kindv > 4 ? "unknown-kind" : "known-kind",
                                 "select(kind %d, %zu raw bytes) returned Ok with (driver %u, device %u, kind %d, \"%.40s\"), which is not an enumerated device of that kind", kindv,
                                 len, id.driver_id, id.device_id, (int)id.kind, id.name);
                } else
                    x.c.cls(CL_RAW_ERR);
                break;
            }
            case K_GET: {
                ensure_init(x);
                if (x.c.ended)
                    break;
                uint32_t idx = (uint32_t)x.en.size() + (t.b % 3 == 0 ? 1000000u : t.b % 5);
                DeviceIdentifier id;
                x.c.cls(CL_BAD_INDEX);
                x.c.trace("GET index %u (out of range, %zu devices)", idx, x.en.size());
                DeviceStatusCode r = device_manager_get(&id, &x.dm, idx);
                if (r == Device_Ok)
                    x.c.fail("C12", "get-out-of-range", "ok", "device_manager_get(%u) succeeded with only %zu devices", idx, x.en.size());
                break;
            }
            case K_OPEN_ALL: {
                ensure_init(x);
                if (x.c.ended)
                    break;
                x.c.trace("OPEN every enumerated camera and storage identifier");
                open_all(x, &x.dm);
                x.c.cls(CL_OPENED_ALL);
                break;
            }
            case K_TWO_MANAGERS: {
                // A second device manager (a second runtime in the same process) over the same driver
                // libraries; both are used, one is destroyed, the survivor must still enumerate and open
                // everything: nothing a driver library keeps per process may die with the first manager.
                ensure_init(x);
                if (x.c.ended)
                    break;
                DeviceManager dm2;
                memset(&dm2, 0, sizeof dm2);
                bool keep_second = t.a & 1;
                x.c.trace("SECOND device manager: init, use both, destroy the %s one, use the survivor", keep_second ? "first" : "second");
                if (device_manager_init(&dm2, reporter) != Device_Ok) {
                    x.c.fail("C12", "init-failed", "second-device-manager", "device_manager_init of a second manager returned an error");
                    break;
                }
                if (device_manager_count(&dm2) != x.en.size()) {
                    x.c.fail("C12", "enumeration-count", "second-device-manager", "the second manager counts %u devices, the loaded drivers describe %zu",
                             device_manager_count(&dm2), x.en.size());
                    device_manager_destroy(&dm2);
                    break;
                }
                DeviceManager* dying = keep_second ? &x.dm : &dm2;
                DeviceManager* survivor = keep_second ? &dm2 : &x.dm;
                if (t.a & 2)
                    open_all(x, survivor);
                if (!x.c.ended)
                    open_all(x, dying);
                device_manager_destroy(dying);
                if (keep_second)
                    x.dm = dm2;
                if (!x.c.ended) {
                    uint32_t n2 = device_manager_count(&x.dm);
                    if (n2 != x.en.size())
                        x.c.fail("C12", "enumeration-count", "after-other-manager-destroyed", "the surviving manager counts %u devices, expected %zu", n2, x.en.size());
                }
                if (!x.c.ended)
                    open_all(x, &x.dm);
                x.c.cls(CL_TWO_MANAGERS);
                x.c.cls(CL_OPENED_ALL);
                break;
            }
            case K_DEFAULTS: {
                ensure_init(x);
                if (x.c.ended)
                    break;
                DeviceKind k = (t.a & 1) ? DeviceKind_Camera : DeviceKind_Storage;
                DeviceIdentifier id;
                memset(&id, 0, sizeof id);
                int want = model_select(x, k, [](const std::string&) { return true; });
                x.c.trace("SELECT_FIRST kind=%d", (int)k);
                DeviceStatusCode r = device_manager_select_first(&x.dm, k, &id);
                check_selected(x, "first", r, id, want, k, "(any)");
                if (x.c.ended)
                    break;
                // empty pattern through the public select as well
                r = device_manager_select(&x.dm, k, "", 0, &id);
                check_selected(x, "empty", r, id, want, k, "");
                if (x.c.ended)
                    break;
                if (t.a & 2) {
                    // the default patterns: ".*random.*" / "trash"
                    Seq dp;
                    Node any;
                    any.t = Node::Any;
                    Node star;
                    star.t = Node::Star;
                    star.a.push_back(any);
                    if (k == DeviceKind_Camera) {
                        dp.push_back(star);
                        for (Node& nd : literal_seq("random"))
                            dp.push_back(nd);
                        dp.push_back(star);
                    } else
                        dp = literal_seq("trash");
                    int w2 = model_select(x, k, [&](const std::string& nm) { return full_match(dp, nm); });
                    r = device_manager_select_default(&x.dm, k, &id);
                    check_selected(x, "default", r, id, w2, k, k == DeviceKind_Camera ? ".*random.*" : "trash");
                }
                break;
            }
        }
    }
    if (!x.c.ended && !x.inited && n)
        ensure_init(x);
    if (x.inited)
        device_manager_destroy(&x.dm);
    g = nullptr;
    delete px;
    return rep->verdict;
}
