// Harness `chan` (C01, C02, C03): the real channel.c on the real platform.c (pthread calls renamed
// onto vsim).  A writer fiber and an executor fiber for reader/controller operations are stepped
// by the ChannelDirector below from tape tokens; a behavioural ledger (no field of struct channel
// is read) is the reference model.  See DESIGN.md section 3, harness `chan`.
#include "vhx.hpp"
#include "vsim/vsim.h"

#include <set>
#include <string>
#include <vector>

extern "C"
{
#include "runtime/channel.h"
}

namespace {

enum
{
    K_CFG,
    K_W_WRITE,   // map + commit (commit deferred until the region is obtained)
    K_W_MAP,
    K_W_COMMIT,
    K_W_ABORT,
    K_R_READ,    // map + unmap(mode)
    K_R_MAP,
    K_R_UNMAP,
    K_ACCEPT,
    K_STEP_WRITER,
    K_PREWAIT,
    K_LAZY,
    K_PRELOCK,
    K_REWIND,    // channel_rewind (writer idle): a no-op unless every reader has consumed everything
    K_COUNT
};

const VhKindSpec kKinds[K_COUNT] = {
    { "CFG", 1, 255, 65535, 0, 0 },        { "W_WRITE", 10, 255, 65535, 0, 0 },  { "W_MAP", 4, 255, 65535, 0, 0 },
    { "W_COMMIT", 4, 0, 0, 0, 0 },         { "W_ABORT", 2, 0, 0, 0, 0 },         { "R_READ", 10, 255, 65535, 0, 0 },
    { "R_MAP", 5, 255, 0, 0, 0 },          { "R_UNMAP", 5, 255, 65535, 0, 0 },   { "ACCEPT", 2, 1, 0, 0, 0 },
    { "STEP_WRITER", 2, 0, 0, 0, 0 },      { "PREWAIT", 1, 1, 0, 0, 0 },         { "LAZY", 1, 1, 0, 0, 0 },
    { "PRELOCK", 1, 1, 0, 0, 0 },          { "REWIND", 2, 0, 0, 0, 0 },
};

enum
{
    CL_WRAP,
    CL_WRAP_WITH_READER,
    CL_PARTIAL,
    CL_MULTI_READER_SKEW_AT_WRAP,
    CL_ABORT_AFTER_WRAP,
    CL_ABORT,
    CL_WRITER_BLOCKED,
    CL_WRITER_RELEASED_BY_UNMAP,
    CL_WRITER_RELEASED_BY_REFUSAL,
    CL_PREWAIT_HIT,
    CL_REFUSAL_IN_WINDOW,
    CL_EXACT_END,
    CL_EXACT_TAIL,
    CL_TIGHT_WRITE,
    CL_READERS_GE3,
    CL_READER_HELD_ACROSS_WRITE,
    CL_EMPTY_READ,
    CL_LATE_JOIN,
    CL_REFUSED_NULL,
    CL_OVERCONSUME,
    CL_NO_READER_WRAP,
    CL_CAUGHT_UP_AT_WRAP,
    CL_PRELOCK_HIT,
    CL_JOIN_IN_PRELOCK,
    CL_DOUBLE_MAP,
    CL_DOUBLE_MAP_WRITER_ASLEEP,
    CL_REWIND_DRAINED,
    CL_REWIND_UNREAD,
    CL_REWIND_EXACTLY_FULL,
};

const VhSpec kSpec = {
    "chan",
    kKinds,
    K_COUNT,
    200,
    { "C01", "C02", "C03", nullptr },
    { "wrap", "wrap_with_reader", "partial_consume", "multi_reader_skew_at_wrap", "abort_after_wrap", "abort", "writer_blocked",
      "writer_released_by_unmap", "writer_released_by_refusal", "prewait_pause_hit", "refusal_inside_check_sleep_window",
      "write_ends_exactly_at_buffer_end", "write_ends_exactly_at_slowest_cursor", "tight_write", "readers_ge3",
      "reader_holds_mapping_across_write", "empty_read", "late_join", "null_because_refused", "consume_more_than_mapped",
      "wrap_without_readers", "reader_caught_up_at_wrap", "writer_paused_before_taking_the_lock",
      "first_read_of_a_reader_while_writer_paused_before_lock", "map_while_mapped_refused", "map_while_mapped_with_writer_asleep", "rewind_all_drained",
      "rewind_with_unread_data", "rewind_with_queue_exactly_full", nullptr },
    { "C01 non-trivial: >=1 wrap-around while >=1 reader is registered AND (a partial consume, or >=2 readers with different cursors "
      "at a wrap, or an aborted write after a wrap); distinct = distinct decoded operation sequence",
      "C02 non-trivial: a write placed when free space < 2*n while a reader lags or holds a mapping, or a write ending exactly at the "
      "slowest reader cursor or exactly at the buffer end (with >=1 reader registered)",
      "C03 non-trivial: the writer was observed asleep inside write_map and was later released (by a consuming unmap or by refuse-writes)",
      nullptr },
};

const int64_t PH_NONE = -1, PH_PENDING = -2;

struct Reader
{
    channel_reader r;
    bool mapped = false;
    uint8_t* beg = nullptr;
    size_t len = 0;
    bool known = false;  // `next` is known
    uint64_t next = 0;   // global offset of the first unconsumed byte
    uint64_t joined_G = 0;
    uint64_t map_start = 0; // global offset of the mapped slice
    bool refused = false;   // mapped again while mapped: the channel refused, moved its bookmark to the writer's
                            // head and still expects one unmap (of 0 bytes) before the next map
};

struct Ctx
{
    VhCase c;
    channel ch;
    bool made = false;
    size_t cap = 0;
    uint8_t* B = nullptr;
    std::vector<int64_t> phys;          // physical byte -> global offset / NONE / PENDING
    std::vector<uint8_t> committed;     // committed byte values by global offset
    std::set<uint64_t> boundaries;      // global offsets at which a committed write starts
    Reader rd[8];
    int nreaders = 0;
    bool accepting = true;              // as last set by a completed ACCEPT
    bool refused_during_map = false;    // an ACCEPT(0) completed while the writer was inside write_map
    uint64_t salt = 0;

    // writer
    int wf = -1, xf = -1;
    enum WState { W_IDLE, W_INSIDE, W_MAPPED } wstate = W_IDLE;
    int wcmd = 0;        // 1 map, 2 commit, 3 abort+unmap
    size_t wn = 0;       // size of the requested write
    uint8_t* wptr = nullptr;
    bool wdone = false;
    bool auto_commit = false;
    uint32_t wseq = 0;
    size_t last_p = 0, last_end = 0;   // last region handed to the writer
    bool any_region = false;
    bool wrapped_since_abort_check = false;
    bool prewait = false, lazy = false;
    bool prelock = false;              // pause the writer at its first lock call inside write_map (once per call)
    bool prelock_done = false, paused_prelock = false;
    bool was_blocked = false;          // writer observed asleep during the current map
    bool paused_in_window = false;
    bool refusal_in_window = false;
    int wraps = 0;

    // executor
    int xop = 0;
    int xr = 0;
    size_t xk = 0;
    uint32_t xtf = 0;
    slice xslice;
    bool xdone = false;
};

Ctx* g = nullptr;

uint8_t
val(uint64_t salt, uint32_t wseq, size_t i)
{
    return (uint8_t)(vh_mix64(salt ^ ((uint64_t)wseq << 32) ^ i) >> 17);
}

void
writer_main(void*)
{
    Ctx& x = *g;
    for (;;) {
        vsim::park();
        if (x.wcmd == 1) {
            x.wptr = (uint8_t*)channel_write_map(&x.ch, x.wn);
        } else if (x.wcmd == 2) {
            channel_write_unmap(&x.ch);
        } else if (x.wcmd == 3) {
            channel_abort_write(&x.ch);
            channel_write_unmap(&x.ch);
        }
        x.wdone = true;
    }
}

void
exec_main(void*)
{
    Ctx& x = *g;
    for (;;) {
        vsim::park();
        if (x.xop == 1)
            x.xslice = channel_read_map(&x.ch, &x.rd[x.xr].r);
        else if (x.xop == 2)
            channel_read_unmap(&x.ch, &x.rd[x.xr].r, x.xk);
        else if (x.xop == 3)
            channel_accept_writes(&x.ch, x.xtf);
        else if (x.xop == 4)
            channel_rewind(&x.ch);
        x.xdone = true;
    }
}

uint64_t
G(const Ctx& x)
{
    return x.committed.size();
}

uint64_t
need_of(const Reader& r)
{
    return r.known ? r.next : r.joined_G;
}

bool
all_drained(const Ctx& x)
{
    for (int i = 0; i < x.nreaders; ++i)
        if (x.rd[i].mapped || need_of(x.rd[i]) != G(x))
            return false;
    return true;
}

// --- oracles ------------------------------------------------------------------------------------

// The writer has just been handed [p, p+n).
void
on_region(Ctx& x)
{
    uint8_t* p = x.wptr;
    size_t n = x.wn;
    if (p < x.B || p + n > x.B + x.cap) {
        x.c.fail("C02", "write-region-in-buffer", "outside", "write_map(%zu) returned [%td,%td) outside the %zu-byte buffer", n, p - x.B,
                 p - x.B + (ptrdiff_t)n, x.cap);
        return;
    }
    size_t off = (size_t)(p - x.B);
    // unconsumed / mapped bytes must not be handed out
    uint64_t min_need = ~0ull;
    bool any_mapped = false;
    for (int i = 0; i < x.nreaders; ++i) {
        min_need = std::min(min_need, need_of(x.rd[i]));
        any_mapped |= x.rd[i].mapped;
    }
    for (size_t q = off; q < off + n; ++q) {
        int64_t o = x.phys[q];
        if (o == PH_PENDING) {
            x.c.fail("C02", "write-overlaps-pending", "pending", "write_map region overlaps the pending write at byte %zu", q);
            return;
        }
        if (o >= 0 && x.nreaders && (uint64_t)o >= min_need) {
            int who = 0;
            for (int i = 0; i < x.nreaders; ++i)
                if ((uint64_t)o >= need_of(x.rd[i]))
                    who = i;
            if (x.c.fail_soft("C02", "write-overlaps-unconsumed", x.rd[who].mapped ? "mapped" : "unconsumed",
                              "write_map(%zu) handed out [%zu,%zu): byte %zu holds committed offset %lld which reader %d has not consumed (its cursor: %llu, mapped: %d)",
                              n, off, off + n, q, (long long)o, who, (unsigned long long)need_of(x.rd[who]), (int)x.rd[who].mapped))
                return;
            break; // another property's run: go on, the readers' own oracles will see the damage
        }
    }
    // statistics / non-trivial classification
    if (x.any_region && off < x.last_p) {
        x.wraps++;
        x.c.cls(CL_WRAP);
        if (x.nreaders) {
            x.c.cls(CL_WRAP_WITH_READER);
            std::set<uint64_t> cursors;
            for (int i = 0; i < x.nreaders; ++i) {
                cursors.insert(need_of(x.rd[i]));
                if (need_of(x.rd[i]) == G(x) && !x.rd[i].mapped)
                    x.c.cls(CL_CAUGHT_UP_AT_WRAP);
            }
            if (cursors.size() >= 2)
                x.c.cls(CL_MULTI_READER_SKEW_AT_WRAP);
        } else
            x.c.cls(CL_NO_READER_WRAP);
        x.wrapped_since_abort_check = true;
    }
    if (x.nreaders) {
        uint64_t outstanding = G(x) - min_need;
        size_t freeb = x.cap > outstanding ? x.cap - (size_t)outstanding : 0;
        bool tight = freeb < 2 * n && (any_mapped || outstanding > 0);
        if (tight) {
            x.c.cls(CL_TIGHT_WRITE);
            x.c.nontrivial(1);
        }
        if (off + n == x.cap) {
            x.c.cls(CL_EXACT_END);
            x.c.nontrivial(1);
        }
        if (min_need < G(x)) {
            // physical position of the slowest cursor
            for (size_t q = 0; q < x.cap; ++q)
                if (x.phys[q] == (int64_t)min_need) {
                    if (off + n == q) {
                        x.c.cls(CL_EXACT_TAIL);
                        x.c.nontrivial(1);
                    }
                    break;
                }
        }
        if (any_mapped)
            x.c.cls(CL_READER_HELD_ACROSS_WRITE);
    }
    // take the region: fill it
    x.wseq++;
    for (size_t i = 0; i < n; ++i) {
        x.phys[off + i] = PH_PENDING;
        p[i] = val(x.salt, x.wseq, i);
    }
    x.last_p = off;
    x.last_end = off + n;
    x.any_region = true;
    x.wstate = Ctx::W_MAPPED;
}

void
on_map_returned(Ctx& x)
{
    x.c.trace("    writer: write_map(%zu) -> %s%s", x.wn, x.wptr ? "region" : "NULL", x.was_blocked ? "  (after sleeping)" : "");
    if (x.was_blocked) {
        x.c.nontrivial(2);
        if (x.wptr)
            x.c.cls(CL_WRITER_RELEASED_BY_UNMAP);
        else
            x.c.cls(CL_WRITER_RELEASED_BY_REFUSAL);
    }
    if (!x.wptr) {
        x.wstate = Ctx::W_IDLE;
        bool legit = x.wn >= x.cap || !x.accepting || x.refused_during_map;
        if (!legit)
            x.c.fail_soft("C02", "null-without-refusal", "null", "write_map(%zu) returned NULL although %zu < capacity %zu and writes were never refused during the call",
                          x.wn, x.wn, x.cap);
        else if (x.wn < x.cap)
            x.c.cls(CL_REFUSED_NULL);
        x.auto_commit = false;
        return;
    }
    if (x.wptr)
        x.c.trace("    region = [%td,%td)", x.wptr - x.B, x.wptr - x.B + (ptrdiff_t)x.wn);
    on_region(x);
}

void
finish_write(Ctx& x, bool abort)
{
    size_t off = x.last_p, n = x.wn;
    bool commit = !abort && x.accepting;
    if (commit) {
        x.boundaries.insert(G(x));
        for (size_t i = 0; i < n; ++i) {
            x.phys[off + i] = (int64_t)G(x);
            x.committed.push_back(x.B[off + i]);
        }
    } else {
        for (size_t i = 0; i < n; ++i)
            x.phys[off + i] = PH_NONE;
        if (abort) {
            x.c.cls(CL_ABORT);
            if (x.wraps && x.nreaders)
                x.c.cls(CL_ABORT_AFTER_WRAP);
        }
    }
    x.wstate = Ctx::W_IDLE;
}

void
check_read_slice(Ctx& x, int ri, slice s)
{
    Reader& r = x.rd[ri];
    if (r.r.status != Channel_Ok) {
        x.c.fail("C01", "reader-status", r.r.status == Channel_Error ? "overflow" : "expected-unmapped",
                 "reader %d status became %d after read_map (the writer overran it or the channel lost track of it)", ri, (int)r.r.status);
        return;
    }
    size_t len = (s.beg && s.end > s.beg) ? (size_t)(s.end - s.beg) : 0;
    if (s.end < s.beg) {
        x.c.fail("C01", "slice-order", "end<beg", "read_map returned end < beg");
        return;
    }
    if (len == 0) {
        x.c.cls(CL_EMPTY_READ);
        uint64_t cur = r.known ? r.next : r.joined_G;
        if (cur != G(x)) {
            x.c.fail("C01", "spurious-empty", r.known ? "known-cursor" : "fresh-reader",
                     "reader %d got an empty region although it consumed only up to %llu of %llu committed bytes", ri,
                     (unsigned long long)cur, (unsigned long long)G(x));
            return;
        }
        r.known = true;
        r.next = G(x);
        x.c.trace("    reader %d: empty (drained at %llu)", ri, (unsigned long long)G(x));
        return;
    }
    if (s.beg < x.B || s.end > x.B + x.cap) {
        x.c.fail("C02", "read-region-in-buffer", "outside", "read_map returned [%td,%td) outside the buffer", s.beg - x.B, s.end - x.B);
        return;
    }
    size_t off = (size_t)(s.beg - x.B);
    int64_t first = x.phys[off];
    if (first < 0) {
        x.c.fail(first == PH_PENDING ? "C02" : "C01", "read-uncommitted", first == PH_PENDING ? "pending" : "aborted-or-unwritten",
                 "reader %d was handed byte %zu which holds %s data", ri, off, first == PH_PENDING ? "a pending (uncommitted) write's" : "aborted / never committed");
        return;
    }
    if (r.known) {
        if ((uint64_t)first != r.next) {
            x.c.fail("C01", "read-not-at-cursor", (uint64_t)first > r.next ? "gap" : "repeat",
                     "reader %d expected committed offset %llu next but its region starts at offset %lld (%s)", ri,
                     (unsigned long long)r.next, (long long)first, (uint64_t)first > r.next ? "bytes lost" : "bytes repeated");
            return;
        }
    } else {
        if (!x.boundaries.count((uint64_t)first) || (uint64_t)first > r.joined_G) {
            x.c.fail("C01", "first-read-not-at-boundary", (uint64_t)first > r.joined_G ? "after-join" : "mid-write",
                     "reader %d (joined at %llu) first region starts at offset %lld which is %s", ri, (unsigned long long)r.joined_G,
                     (long long)first, (uint64_t)first > r.joined_G ? "later than its join" : "not a write boundary");
            return;
        }
        if ((uint64_t)first < r.joined_G)
            x.c.cls(CL_LATE_JOIN);
    }
    for (size_t i = 0; i < len; ++i) {
        int64_t o = x.phys[off + i];
        if (o != first + (int64_t)i) {
            x.c.fail(o == PH_PENDING ? "C02" : "C01", "read-not-consecutive", o < 0 ? (o == PH_PENDING ? "pending" : "uncommitted") : "jump",
                     "reader %d region byte %zu holds offset %lld, expected %lld", ri, i, (long long)o, (long long)(first + (int64_t)i));
            return;
        }
        if (s.beg[i] != x.committed[(size_t)o]) {
            x.c.fail("C01", "read-content", "altered", "reader %d region byte %zu (offset %lld) has value %u, committed value was %u", ri, i,
                     (long long)o, s.beg[i], x.committed[(size_t)o]);
            return;
        }
    }
    r.known = true;
    r.next = (uint64_t)first; // cursor stays until unmap
    r.mapped = true;
    r.beg = s.beg;
    r.len = len;
    r.map_start = (uint64_t)first;
    x.c.trace("    reader %d: region [%zu,%zu) = committed offsets [%lld,%lld)", ri, off, off + len, (long long)first, (long long)first + (long long)len);
}

void
before_unmap(Ctx& x, int ri)
{
    Reader& r = x.rd[ri];
    for (size_t i = 0; i < r.len; ++i)
        if (r.beg[i] != x.committed[(size_t)(r.map_start + i)]) {
            x.c.fail_soft("C02", "mapped-region-modified", "changed-while-held", "reader %d's mapped region changed at byte %zu (offset %llu) while it was held",
                          ri, i, (unsigned long long)(r.map_start + i));
            return;
        }
}

// --- director -------------------------------------------------------------------------------------

// Runs the writer while it is runnable.  Stops (returns true) when it sits at the entry of its
// condition wait and `stop_prewait` is set.
bool
run_writer(Ctx& x, bool stop_prewait)
{
    for (;;) {
        const vsim::Info& wi = vsim::info(x.wf);
        if (wi.st != vsim::RUNNABLE)
            break;
        if (wi.op == vsim::OP_LOCK && x.wstate == Ctx::W_INSIDE && x.prelock && !x.prelock_done) {
            // the writer is about to take the channel lock at the entry of write_map: anything it
            // looked at before this point was read without the lock
            x.prelock_done = true;
            x.paused_prelock = true;
            x.c.cls(CL_PRELOCK_HIT);
            return true;
        }
        x.paused_prelock = false;
        if (wi.op == vsim::OP_WAIT && x.wstate == Ctx::W_INSIDE) {
            if (stop_prewait) {
                if (!x.paused_in_window)
                    x.c.cls(CL_PREWAIT_HIT);
                x.paused_in_window = true;
                return true;
            }
        }
        bool entering_wait = wi.op == vsim::OP_WAIT;
        vsim::step(x.wf);
        if (entering_wait) {
            x.paused_in_window = false;
            if (vsim::info(x.wf).st == vsim::BLK_COND) {
                x.was_blocked = true;
                x.c.cls(CL_WRITER_BLOCKED);
            }
        }
        if (x.c.ended)
            return false;
    }
    if (x.wdone) {
        x.wdone = false;
        if (x.wcmd == 1)
            on_map_returned(x);
        x.wcmd = 0;
        if (x.wstate == Ctx::W_MAPPED && x.auto_commit && !x.c.ended) {
            x.auto_commit = false;
            x.c.trace("    writer: write_unmap (deferred commit)");
            x.wcmd = 2;
            vsim::unpark(x.wf);
            while (vsim::info(x.wf).st == vsim::RUNNABLE)
                vsim::step(x.wf);
            x.wdone = false;
            x.wcmd = 0;
            finish_write(x, false);
        }
    }
    return false;
}

void
writer_cmd(Ctx& x, int cmd)
{
    x.wcmd = cmd;
    x.wdone = false;
    vsim::unpark(x.wf);
    if (cmd == 1) {
        x.wstate = Ctx::W_INSIDE;
        x.was_blocked = false;
        x.refused_during_map = false;
        x.paused_in_window = false;
        x.prelock_done = false;
        x.paused_prelock = false;
        run_writer(x, x.prewait);
    } else {
        while (vsim::info(x.wf).st == vsim::RUNNABLE)
            vsim::step(x.wf);
        x.wdone = false;
        x.wcmd = 0;
    }
}

// Runs one executor operation to completion; if it needs the channel lock while the writer is
// paused holding it, the writer is let go to sleep first (what a real reader would wait for).
void
exec_op(Ctx& x, int op, int r, size_t k, uint32_t tf)
{
    x.xop = op;
    x.xr = r;
    x.xk = k;
    x.xtf = tf;
    x.xdone = false;
    vsim::unpark(x.xf);
    int guard = 0;
    while (!x.xdone && ++guard < 100000) {
        vsim::State st = vsim::info(x.xf).st;
        if (st == vsim::RUNNABLE) {
            vsim::step(x.xf);
        } else if (st == vsim::BLK_MUTEX) {
            // the lock is held by the paused writer: it proceeds into its wait
            if (vsim::info(x.wf).st == vsim::RUNNABLE) {
                bool entering_wait = vsim::info(x.wf).op == vsim::OP_WAIT;
                vsim::step(x.wf);
                if (entering_wait) {
                    x.paused_in_window = false;
                    if (vsim::info(x.wf).st == vsim::BLK_COND) {
                        x.was_blocked = true;
                        x.c.cls(CL_WRITER_BLOCKED);
                    }
                }
            } else {
                x.c.fail("C03", "executor-deadlock", "lock", "a reader/controller call is blocked on the channel lock and nobody can release it");
                return;
            }
        } else {
            x.c.fail("C03", "executor-stuck", vsim::state_name(st), "a reader/controller call ended up %s", vsim::state_name(st));
            return;
        }
    }
    // let the executor park again
    while (vsim::info(x.xf).st == vsim::RUNNABLE)
        vsim::step(x.xf);
}

// After a non-writer operation: continue the writer (unless lazy) and apply the C03 oracle.
void
after_op(Ctx& x, bool was_refusal, bool was_unmap)
{
    if (x.c.ended)
        return;
    if (!x.lazy || was_refusal || was_unmap)
        run_writer(x, x.prewait && !was_refusal && !was_unmap);
    if (x.c.ended)
        return;
    if (x.wstate == Ctx::W_INSIDE && vsim::info(x.wf).st == vsim::BLK_COND) {
        if (was_refusal)
            x.c.fail("C03", "refusal-lost", x.refusal_in_window ? "in-check-sleep-window" : "while-asleep",
                     "writes were refused (%s) but the writer is still asleep inside write_map(%zu) with nobody left to wake it",
                     x.refusal_in_window ? "between the writer's check and its sleep" : "while the writer slept", x.wn);
        else if (was_unmap && x.accepting && all_drained(x))
            x.c.fail("C03", "release-lost", "all-drained",
                     "every reader has consumed everything, writes are accepted, yet the writer is still asleep inside write_map(%zu)", x.wn);
    }
}

size_t
pick_size(Ctx& x, const VhTok& t)
{
    size_t cap = x.cap;
    unsigned mode = t.a % 12;
    size_t head = x.any_region ? x.last_end : 0;
    size_t to_end = cap - head;
    // physical position of the slowest cursor, if it is behind
    size_t tailq = cap;
    uint64_t min_need = ~0ull;
    for (int i = 0; i < x.nreaders; ++i)
        min_need = std::min(min_need, need_of(x.rd[i]));
    if (x.nreaders && min_need < G(x))
        for (size_t q = 0; q < cap; ++q)
            if (x.phys[q] == (int64_t)min_need) {
                tailq = q;
                break;
            }
    size_t n;
    switch (mode) {
        case 0:
        case 1:
        case 2: n = 1 + t.b % (cap - 1); break;
        case 3: n = to_end; break;
        case 4: n = to_end ? to_end - 1 : 1; break;
        case 5: n = to_end + 1; break;
        case 6: n = tailq != cap ? (tailq > head ? tailq - head : tailq) : 1 + t.b % (cap - 1); break;
        case 7: n = tailq != cap ? (tailq > head ? tailq - head : tailq) + 1 : cap - 1; break;
        case 8: n = tailq != cap && (tailq > head ? tailq - head : tailq) > 1 ? (tailq > head ? tailq - head : tailq) - 1 : 1; break;
        case 9: n = cap - 1; break;
        case 10: n = 1 + t.b % 4; break;
        default: n = 1 + t.b % std::max<size_t>(1, cap / 2); break;
    }
    if (n < 1)
        n = 1;
    if (n >= cap) {
        if (t.b % 16 == 0)
            return cap + t.b % 3; // rarely: a request that can never fit (must return NULL)
        n = cap - 1;
    }
    return n;
}

void
make_channel(Ctx& x, size_t cap)
{
    x.cap = cap;
    channel_new(&x.ch, cap);
    x.made = true;
    x.phys.assign(cap, PH_NONE);
    x.wf = vsim::spawn(writer_main, nullptr, "writer");
    x.xf = vsim::spawn(exec_main, nullptr, "executor");
    vsim::step(x.wf); // runs to its first park()
    vsim::step(x.xf);
}

void
do_read_map(Ctx& x, int ri)
{
    Reader& r = x.rd[ri];
    bool fresh = r.r.id == 0;
    if (fresh)
        r.joined_G = G(x);
    if (fresh && x.paused_prelock && x.wstate == Ctx::W_INSIDE)
        x.c.cls(CL_JOIN_IN_PRELOCK);
    exec_op(x, 1, ri, 0, 0);
    if (x.c.ended)
        return;
    check_read_slice(x, ri, x.xslice);
}

void
do_read_unmap(Ctx& x, int ri, unsigned mode, unsigned v)
{
    Reader& r = x.rd[ri];
    size_t k;
    switch (mode % 6) {
        case 0:
        case 1:
        case 2: k = r.len; break;
        case 3: k = 0; break;
        case 4: k = r.len > 1 ? 1 + v % (r.len - 1) : r.len; break;
        default: k = r.len + 1 + v % 8; break;
    }
    before_unmap(x, ri);
    if (x.c.ended)
        return;
    if (k < r.len)
        x.c.cls(CL_PARTIAL);
    if (k > r.len)
        x.c.cls(CL_OVERCONSUME);
    x.c.trace("R_UNMAP reader=%d consumed=%zu of %zu", ri, k, r.len);
    exec_op(x, 2, ri, k, 0);
    if (x.c.ended)
        return;
    r.next += std::min(k, r.len);
    r.mapped = false;
    r.len = 0;
    after_op(x, false, true);
}

// read_map on a reader that is still mapped (see the R_MAP case).  Nothing is asserted about the
// refused call itself beyond what the properties say: the reader gives up its region and everything
// committed so far, so from the writer's point of view it has consumed everything (C03), and its
// stream restarts at the current end (C01 applies again from there).
void
do_double_map(Ctx& x, int ri)
{
    Reader& r = x.rd[ri];
    bool asleep = x.wstate == Ctx::W_INSIDE && vsim::info(x.wf).st == vsim::BLK_COND;
    x.c.cls(CL_DOUBLE_MAP);
    if (asleep) {
        x.c.cls(CL_DOUBLE_MAP_WRITER_ASLEEP);
        x.c.nontrivial(2);
    }
    x.c.mix(0x480 + ri);
    x.c.trace("R_MAP reader=%d while it is still mapped (refused by the channel)%s", ri, asleep ? "   [writer asleep]" : "");
    if (r.mapped)
        before_unmap(x, ri);
    if (x.c.ended)
        return;
    exec_op(x, 1, ri, 0, 0);
    if (x.c.ended)
        return;
    slice s = x.xslice;
    size_t len = (s.beg && s.end > s.beg) ? (size_t)(s.end - s.beg) : 0;
    x.c.trace("    reader %d: status %d, %zu bytes", ri, (int)r.r.status, len);
    if (r.r.status != Channel_Expected_Unmapped_Reader || len != 0) {
        // not the refusal path after all (a change made it hand out data): judge it as a normal map
        r.mapped = false;
        r.refused = false;
        check_read_slice(x, ri, s);
        if (!x.c.ended)
            after_op(x, false, false);
        return;
    }
    r.r.status = Channel_Ok; // the error is spent (acquire.c does the same)
    r.mapped = false;        // the region is no longer protected
    r.len = 0;
    r.refused = true;
    r.known = true;
    r.next = G(x);
    after_op(x, false, true); // the bookmark moved to the head: space was released
}

void
do_unmap_after_refusal(Ctx& x, int ri)
{
    Reader& r = x.rd[ri];
    x.c.trace("R_UNMAP reader=%d consumed=0 (after the refused map)", ri);
    exec_op(x, 2, ri, 0, 0);
    if (x.c.ended)
        return;
    r.refused = false;
    after_op(x, false, true);
}

} // namespace

// channel.c is compiled with -Dmemory_alloc=vh_memory_alloc -Dmemory_free=vh_memory_free
extern "C" void*
vh_memory_alloc(size_t n, enum AllocatorHint)
{
    void* p = malloc(n); // exact size: AddressSanitizer guards both ends
    if (g)
        g->B = (uint8_t*)p;
    return p;
}
extern "C" void
vh_memory_free(void* p)
{
    free(p);
}

extern "C" const VhSpec*
vh_spec(void)
{
    return &kSpec;
}

extern "C" int
vh_run(const VhTok* tape, size_t n, VhReport* rep)
{
    Ctx* px = new Ctx();
    Ctx& x = *px;
    g = px;
    x.c.begin(rep, &kSpec);
    vsim::reset();
    memset(&x.ch, 0, sizeof x.ch);
    for (auto& r : x.rd)
        memset(&r.r, 0, sizeof r.r);
    x.salt = 0x5eed;

    size_t ti = 0;
    // capacity: from a leading CFG token, else 16
    size_t cap = 16;
    if (n && tape[0].kind % K_COUNT == K_CFG) {
        unsigned m = tape[0].a % 8;
        unsigned b = tape[0].b;
        if (m < 5)
            cap = 8 + b % 57; // 8..64
        else if (m == 5)
            cap = 2 + b % 7;  // 2..8
        else if (m == 6)
            cap = 64 + b % 448;
        else
            cap = 512 + b % 3585; // ..4096
        ti = 1;
    } else if (n) {
        // no explicit CFG: the capacity comes from the first token all the same (it is executed as an
        // operation too), so that generated cases cover the capacities and not just the default
        uint64_t h = vh_mix64(tape[0].kind * 7919u + tape[0].a * 131u + tape[0].b);
        unsigned m = (unsigned)(h % 8), b = (unsigned)(h >> 16) & 0xffff;
        if (m < 5)
            cap = 8 + b % 57;
        else if (m == 5)
            cap = 2 + b % 7;
        else if (m == 6)
            cap = 64 + b % 448;
        else
            cap = 512 + b % 3585;
    }
    // the origin of the (virtual) clock is arbitrary: often just before a full second, so that code which
    // does arithmetic on timespecs meets the carry
    if (n) {
        // (from the first token whatever its kind, so that most cases have one)
        static const uint64_t before[4] = { 0, 500000, 1500000, 1990000 };
        unsigned o = (unsigned)(vh_mix64(tape[0].a * 131u + tape[0].b) >> 8) % 8;
        if (o >= 4)
            vsim::set_now_ns((uint64_t)(1 + o) * 1000000000ull - before[o % 4] - 1);
    }
    x.c.trace("CFG capacity=%zu", cap);
    x.c.mix(cap);
    make_channel(x, cap);
    if (n) {
        // the origin of the lap counter is arbitrary too (nothing ever resets it): near 2^8, 2^16, 2^32 laps
        static const size_t origins[8] = { 0, 0, 0, 250, 65530, 4294967290ull, 252, 65533 };
        x.ch.cycle = origins[(unsigned)(vh_mix64(tape[0].a * 977u + tape[0].b + 5) >> 16) % 8];
        if (x.ch.cycle)
            x.c.trace("    (lap counter starts at %zu)", (size_t)x.ch.cycle);
    }

    for (; ti < n && !x.c.ended; ++ti) {
        const VhTok& t = tape[ti];
        int kind = t.kind % K_COUNT;
        rep->steps++;
        switch (kind) {
            case K_CFG: break; // only meaningful as the first token
            case K_W_WRITE:
            case K_W_MAP: {
                if (x.wstate != Ctx::W_IDLE)
                    break;
                x.wn = pick_size(x, t);
                x.auto_commit = kind == K_W_WRITE;
                x.c.mix(0x100 + kind);
                x.c.mix(x.wn);
                x.c.trace("%s n=%zu%s", kind == K_W_WRITE ? "W_WRITE" : "W_MAP", x.wn, x.prewait ? "   [prewait pause on]" : "");
                writer_cmd(x, 1);
                if (!x.c.ended && x.wstate == Ctx::W_INSIDE)
                    x.c.trace("    writer: %s inside write_map", x.paused_in_window ? "paused between its check and its sleep" : "asleep");
                break;
            }
            case K_W_COMMIT: {
                if (x.wstate != Ctx::W_MAPPED)
                    break;
                x.c.mix(0x200);
                x.c.trace("W_COMMIT%s", x.accepting ? "" : "   (writes refused: dropped)");
                writer_cmd(x, 2);
                finish_write(x, false);
                break;
            }
            case K_W_ABORT: {
                if (x.wstate != Ctx::W_MAPPED)
                    break;
                x.c.mix(0x300);
                x.c.trace("W_ABORT (abort_write + write_unmap)");
                writer_cmd(x, 3);
                finish_write(x, true);
                break;
            }
            case K_R_READ:
            case K_R_MAP: {
                int want = t.a % 9;
                int ri;
                if (want >= x.nreaders) {
                    if (x.nreaders >= 8)
                        ri = want % 8;
                    else
                        ri = x.nreaders++;
                } else
                    ri = want;
                if (x.nreaders >= 3)
                    x.c.cls(CL_READERS_GE3);
                Reader& r = x.rd[ri];
                if (r.mapped || r.refused) {
                    // A well-formed reader does not map twice, but the state is reachable (acquire_stop's
                    // monitor flush can collide with a polling client): the channel refuses, moves the
                    // reader's bookmark to the writer's head -- which releases space -- and the reader
                    // owes one unmap.  Generated from R_MAP tokens only, and only in the shape the runtime
                    // can reach: the reader's region ends at the committed end (it mapped everything), it
                    // was not refused already, and the owed unmap consumes 0 bytes.  (Other shapes are
                    // caller misuse whose consequences no listed property speaks about: e.g. a refused
                    // reader whose stale region end coincides with the head one lap later is put back a
                    // lap by its unmap.)
                    if (kind == K_R_MAP && (t.a / 9) % 2 == 0 && r.mapped && !r.refused && r.map_start + r.len == G(x))
                        do_double_map(x, ri);
                    break;
                }
                x.c.mix(0x400 + kind * 16 + ri);
                x.c.trace("%s reader=%d%s", kind == K_R_READ ? "R_READ" : "R_MAP", ri, r.r.id == 0 ? "  (joins)" : "");
                do_read_map(x, ri);
                if (x.c.ended)
                    break;
                after_op(x, false, false);
                if (x.c.ended)
                    break;
                if (kind == K_R_READ && r.mapped) {
                    x.c.mix(t.b % 6);
                    do_read_unmap(x, ri, t.b % 6, t.b / 6);
                }
                break;
            }
            case K_R_UNMAP: {
                if (!x.nreaders)
                    break;
                int ri = t.a % x.nreaders;
                if (x.rd[ri].refused) {
                    x.c.mix(0x580 + ri);
                    do_unmap_after_refusal(x, ri);
                    break;
                }
                if (!x.rd[ri].mapped)
                    break;
                x.c.mix(0x500 + ri);
                x.c.mix(t.b % 6);
                do_read_unmap(x, ri, t.b % 6, t.b / 6);
                break;
            }
            case K_ACCEPT: {
                uint32_t tf = t.a & 1;
                x.c.mix(0x600 + tf);
                bool in_window = x.wstate == Ctx::W_INSIDE && x.paused_in_window;
                x.c.trace("ACCEPT %u%s", tf, in_window ? "   [writer is between its check and its sleep]" : "");
                if (in_window && !tf) {
                    x.c.cls(CL_REFUSAL_IN_WINDOW);
                    x.refusal_in_window = true;
                } else
                    x.refusal_in_window = false;
                exec_op(x, 3, 0, 0, tf);
                if (x.c.ended)
                    break;
                x.accepting = tf != 0;
                if (!tf && x.wstate == Ctx::W_INSIDE)
                    x.refused_during_map = true;
                after_op(x, !tf, false);
                break;
            }
            case K_STEP_WRITER: {
                x.c.mix(0x700);
                if (x.wstate == Ctx::W_INSIDE && vsim::info(x.wf).st == vsim::RUNNABLE) {
                    x.c.trace("STEP_WRITER");
                    run_writer(x, false);
                }
                break;
            }
            case K_PREWAIT:
                x.prewait = t.a & 1;
                x.c.mix(0x800 + x.prewait);
                break;
            case K_LAZY:
                x.lazy = t.a & 1;
                x.c.mix(0x900 + x.lazy);
                break;
            case K_PRELOCK:
                x.prelock = t.a & 1;
                x.c.mix(0xa00 + x.prelock);
                break;
            case K_REWIND: {
                // documented: "does nothing unless every registered reader has consumed everything; the
                // caller ensures that no write is mapped or in progress".  The ledger needs no update:
                // either nothing changes, or only consumed data is forgotten.
                if (x.wstate != Ctx::W_IDLE)
                    break;
                bool drained = all_drained(x);
                uint64_t min_need = ~0ull;
                for (int i = 0; i < x.nreaders; ++i)
                    min_need = std::min(min_need, need_of(x.rd[i]));
                bool full = x.nreaders && G(x) - min_need == x.cap;
                x.c.cls(drained ? CL_REWIND_DRAINED : CL_REWIND_UNREAD);
                if (full) {
                    x.c.cls(CL_REWIND_EXACTLY_FULL);
                    x.c.nontrivial(0);
                }
                x.c.mix(0xb00);
                x.c.trace("REWIND   (%s%s)", drained ? "every reader drained" : "unread data: must change nothing", full ? ", queue exactly full" : "");
                exec_op(x, 4, 0, 0, 0);
                break;
            }
        }
        if (vsim::error() && !x.c.ended) {
            // the mutex / condition protocol was broken (unlock by a non-owner, wait without the lock):
            // the channel's critical sections are no longer exclusive, which all three properties rest on
            const char* prop = vh_focus && (!strcmp(vh_focus, "C01") || !strcmp(vh_focus, "C02")) ? vh_focus : "C03";
            x.c.fail(prop, "platform-misuse", "vsim", "%s", vsim::error());
        }
    }

    // ---- end of case: everything must drain ----------------------------------------------------
    if (!x.c.ended) {
        x.c.trace("END: accept writes, finish the writer, drain every reader");
        x.lazy = false;
        x.prewait = false;
        x.prelock = false;
        exec_op(x, 3, 0, 0, 1);
        x.accepting = true;
        if (!x.c.ended)
            run_writer(x, false);
        for (int round = 0; round < 12 && !x.c.ended; ++round) {
            if (x.wstate == Ctx::W_MAPPED) {
                writer_cmd(x, 2);
                finish_write(x, false);
            }
            for (int ri = 0; ri < x.nreaders && !x.c.ended; ++ri) {
                Reader& r = x.rd[ri];
                if (r.refused)
                    do_unmap_after_refusal(x, ri);
                if (r.mapped)
                    do_read_unmap(x, ri, 0, 0);
                // "readers that keep reading reach the drained state in a bounded number of calls"
                int calls = 0;
                while (!x.c.ended) {
                    do_read_map(x, ri);
                    if (x.c.ended)
                        break;
                    if (!r.mapped)
                        break; // empty = drained (checked by the oracle)
                    do_read_unmap(x, ri, 0, 0);
                    if (++calls > 6) {
                        x.c.fail("C03", "drain-bound", "more-than-6-rounds", "reader %d needed more than 6 map/unmap rounds to drain with an idle writer", ri);
                        break;
                    }
                    if (x.wstate != Ctx::W_INSIDE)
                        ; // the writer may have progressed; the outer loop commits
                }
            }
            if (x.c.ended)
                break;
            run_writer(x, false);
            if (x.wstate == Ctx::W_IDLE && all_drained(x))
                break;
            if (x.wstate == Ctx::W_INSIDE && vsim::info(x.wf).st == vsim::BLK_COND && all_drained(x))
                break; // stuck: reported below
        }
        if (!x.c.ended && x.wstate == Ctx::W_INSIDE)
            x.c.fail("C03", "writer-never-returns", vsim::state_name(vsim::info(x.wf).st),
                     "at quiescence (all readers drained, writes accepted) the writer is still inside write_map(%zu): %s", x.wn,
                     vsim::state_name(vsim::info(x.wf).st));
        for (int ri = 0; ri < x.nreaders && !x.c.ended; ++ri)
            if (need_of(x.rd[ri]) != G(x))
                x.c.fail("C01", "not-drained-at-end", "residue", "reader %d ended at offset %llu of %llu committed bytes", ri,
                         (unsigned long long)need_of(x.rd[ri]), (unsigned long long)G(x));
    }

    // non-trivial rule for C01
    if (x.c.has(CL_WRAP_WITH_READER) && (x.c.has(CL_PARTIAL) || x.c.has(CL_MULTI_READER_SKEW_AT_WRAP) || x.c.has(CL_ABORT_AFTER_WRAP)))
        x.c.nontrivial(0);

    vsim::reset(); // abandons the two actor fibers
    if (x.made)
        free(x.B);
    g = nullptr;
    delete px;
    return rep->verdict;
}
