"""venum.py — systematic (enumerating) sub-runs used by the thorough tier and, in reduced form, by
the quick tier: fault enumeration for the storage devices (C16) and bounded-exhaustive
enumeration for the channel (C01-C03).  Tapes are generated here and executed by the replay
front-end in batches."""
import json
import os
import time
import re
import struct
import subprocess
from concurrent.futures import ThreadPoolExecutor


def tok(k, a=0, b=0, c=0, d=0):
    return struct.pack("<BBHHH", k, a, b, c, d)


def run_batches(exe, tapes, scratch, env_base, engine, nworkers, tag):
    """tapes: list of (name, bytes).  Returns (stats list, candidates, per-tape output)."""
    os.makedirs(os.path.join(scratch, tag), exist_ok=True)
    paths = []
    for i, (name, data) in enumerate(tapes):
        p = os.path.join(scratch, tag, "%06d_%s.tape" % (i, name))
        open(p, "wb").write(data)
        paths.append(p)
    nb = max(1, min(nworkers, (len(paths) + 39) // 40))
    chunks = [paths[i::nb] for i in range(nb)]
    stats, cands, outputs = [], [], {}

    def work(j):
        todo = list(chunks[j])
        res_stats, res_c = [], []
        part = 0
        hangs = 0
        stuck_s = float(os.environ.get("VERIF_STUCK_S", 90))
        while todo:
            out = os.path.join(scratch, tag, "o%d_%d" % (j, part))
            part += 1
            os.makedirs(os.path.join(out, "s"), exist_ok=True)
            env = dict(env_base)
            env["VH_OUT"] = out
            env["VH_SCRATCH"] = os.path.join(out, "s")
            from vcheck import _die_with_parent
            # Watchdog (as for the rapidcheck workers): the process prints one line per finished tape; when its
            # output does not grow for stuck_s seconds it sits in a loop inside the current tape and is killed.
            logp = os.path.join(out, "log")
            with open(logp, "wb") as logf:
                p = subprocess.Popen([exe, "--stats", "--engine", engine] + todo, env=env, stdout=logf, stderr=subprocess.STDOUT, cwd=out,
                                     preexec_fn=_die_with_parent)
                size, since, hung = -1, time.time(), False
                while p.poll() is None:
                    time.sleep(0.5)
                    sz = os.path.getsize(logp)
                    if sz != size:
                        size, since = sz, time.time()
                    elif time.time() - since > stuck_s:
                        hung = True
                        p.kill()
                        p.wait()
            txt = open(logp, "rb").read().decode("utf-8", "replace")
            done = re.findall(r"^REPLAY (\S+) verdict=(\d) .*? sig=(.*?) msg=(.*)$", txt, re.M)
            for path, verdict, sig, msg in done:
                outputs[path] = (int(verdict), sig, msg)
                if verdict == "1":
                    res_c.append((engine + ":" + os.path.basename(path), open(path, "rb").read(), "verdict:" + sig, {"msg": msg}))
            try:
                res_stats.append((out, json.load(open(os.path.join(out, "stats.json")))))
            except Exception:
                pass
            finished = set(d[0] for d in done)
            rest = [t for t in todo if t not in finished]
            if p.returncode in (0, 1) or not rest:
                break
            # the process died (or was killed by the watchdog) inside rest[0]
            if hung:
                res_c.append((engine + "-stuck:" + os.path.basename(rest[0]), open(rest[0], "rb").read(), "hang:no-progress", {"log": txt[-2000:]}))
                hangs += 1
                if hangs >= 2:
                    break  # every further tape of this batch may cost another stuck_s: two hangs are enough to report
            else:
                res_c.append((engine + "-crash:" + os.path.basename(rest[0]), open(rest[0], "rb").read(), "crash:" + _crash(txt), {"log": txt[-2000:]}))
            todo = rest[1:]
        return res_stats, res_c

    with ThreadPoolExecutor(max_workers=nb) as ex:
        for s, c in ex.map(work, range(nb)):
            stats.extend(s)
            cands.extend(c)
    return stats, cands, outputs


def _crash(txt):
    m = re.search(r"SUMMARY: (\w+Sanitizer): (\S+) (\S+) in (\S+)", txt)
    return "%s|%s" % (m.group(2), m.group(4)) if m else "abnormal-exit"


# ------------------------------------------------------------------------------------------ stor
# token kinds of harness/stor/stor.cpp
S_ACQ, S_OPEN, S_SET, S_START, S_FRAME, S_APPEND, S_STOP, S_CLOSE, S_SHORT, S_FAIL = range(10)


def stor_histories(kind):
    """Base life-cycle histories for storage kind 0..3 (raw, tiff, tiff-json, trash)."""
    k = kind
    acq = lambda b, c, d: tok(S_ACQ, 0, b, c, d)
    return {
        "set-close": tok(S_OPEN, k) + tok(S_SET, k, 18, 3) + tok(S_CLOSE),
        "start-stop-no-frames": tok(S_OPEN, k) + tok(S_SET, k, 18, 3) + tok(S_START) + tok(S_STOP) + tok(S_CLOSE),
        "three-frames-two-packets": tok(S_OPEN, k) + tok(S_SET, k, 26, 3) + tok(S_START) + tok(S_FRAME, 0, 0x0203, 1) + tok(S_FRAME, 1 + 8, 0x0405, 2) +
                                    tok(S_FRAME, 4 + 8, 0x0307, 3) + tok(S_STOP) + tok(S_CLOSE),
        "two-cycles": tok(S_OPEN, k) + acq(2 + 8, 11, 34) + acq(1 + 16, 12, 50) + tok(S_CLOSE),
        "close-while-running": tok(S_OPEN, k) + tok(S_SET, k, 18, 3) + tok(S_START) + tok(S_FRAME, 8, 0x0203, 1) + tok(S_FRAME, 0, 0x0203, 2) + tok(S_CLOSE),
        "use-after-failure": tok(S_OPEN, k) + acq(2 + 8, 11, 34) + acq(2, 12, 50) + acq(1, 13, 66) + tok(S_CLOSE),
    }


def stor_fault_enum(prop, harness, cfg, budget, targets, scratch, known_path, seed, env_base, nworkers, full):
    exe = targets["rp"].out
    # 1. fault-free runs to learn how many OS calls each history makes
    base = []
    for kind in range(4):
        for name, data in stor_histories(kind).items():
            base.append(("k%d-%s" % (kind, name), data))
    env = dict(env_base)
    counts = {}
    os.makedirs(os.path.join(scratch, "enum0", "s"), exist_ok=True)
    for name, data in base:
        p = os.path.join(scratch, "enum0", name + ".tape")
        open(p, "wb").write(data)
        e = dict(env)
        e["VH_OUT"] = os.path.join(scratch, "enum0")
        e["VH_SCRATCH"] = os.path.join(scratch, "enum0", "s")
        r = subprocess.run([exe, "--trace", p], env=e, stdout=subprocess.PIPE, stderr=subprocess.STDOUT, cwd=os.path.join(scratch, "enum0"))
        m = re.search(r"VFD calls: open=(\d+) flock=(\d+) pwrite=(\d+)", r.stdout.decode("utf-8", "replace"))
        counts[name] = tuple(int(x) for x in m.groups()) if m else (0, 0, 0)
    # 2. one tape per (history, call kind, index, transient/persistent) + zero-length-run variants
    tapes = []
    points = 0
    for name, data in base:
        no, nf, nw = counts[name]
        for (callsel, n) in ((1, no), (2, nf), (0, nw)):
            ks = range(n) if full else sorted(set(list(range(min(n, 3))) + [n // 2, max(0, n - 1)])) if n else []
            for k in ks:
                if k > 255:
                    continue
                for persistent in (0, 1):
                    a = callsel | (persistent << 2) | ((k % 4) << 3)
                    tapes.append(("%s-c%d-k%d-p%d" % (name, callsel, k, persistent), tok(S_FAIL, a, k, 1) + data))
                    points += 1
        for zsel in ((0, 0 | (2 << 6)), (1, 4 | (2 << 6)), (2, 8 | (2 << 6))) if full else ((0, 0 | (2 << 6)),):
            # SHORT: zero-length returns in runs of 3 (the OS makes no progress) and 1-byte chunks
            tapes.append(("%s-zero%d" % (name, zsel[0]), tok(S_SHORT, zsel[0], zsel[1]) + data))
    stats, cands, _ = run_batches(exe, tapes, scratch, env_base, "fault-enumeration", nworkers, "enum1")
    extra = {"fault_enumeration": {"histories": len(base), "storage_kinds": 4, "fault_points_enumerated": points, "tapes": len(tapes),
                                   "every_index_of_every_history": bool(full),
                                   "os_calls_per_history(open,flock,pwrite)": counts}}
    return stats, cands, extra


# ------------------------------------------------------------------------------------------ chan
def chan_exhaustive(prop, harness, cfg, budget, targets, scratch, known_path, seed, env_base, nworkers, full):
    """Every tape of length 1..depth over an 18-token alphabet, for capacities 4, 5 and 6 (complete
    within that bound).  Token kinds of harness/chan/chan.cpp."""
    exe = targets["en"].out
    alphabet = [
        (1, 0, 0), (1, 0, 1), (1, 9, 0), (1, 3, 0),      # W_WRITE size 1, size 2, capacity-1, exactly to the buffer end
        (2, 0, 1), (3, 0, 0), (4, 0, 0),                 # W_MAP size 2 (held), W_COMMIT, W_ABORT
        (5, 0, 0), (5, 0, 4), (5, 0, 3), (5, 1, 0),      # R_READ reader 0 all / one byte / nothing; reader 1 all
        (6, 0, 0), (7, 0, 0),                            # R_MAP reader 0 (held), R_UNMAP reader 0 all
        (8, 0, 0), (8, 1, 0), (10, 1, 0),                # ACCEPT 0, ACCEPT 1, PREWAIT on
        (12, 1, 0),                                      # PRELOCK on (writer pauses before its first lock call)
        (13, 0, 0),                                      # REWIND
    ]
    depth = 6 if full else 5
    d = os.path.join(scratch, "chanenum")
    os.makedirs(d, exist_ok=True)
    with open(os.path.join(d, "alphabet.txt"), "w") as f:
        for k, a, b in alphabet:
            f.write("%d %d %d 0 0\n" % (k, a, b))
    procs = []
    caps = [(4, 2), (5, 3), (6, 4)]  # capacity -> CFG token field b (capacity = 2 + b % 7 for mode 5)
    per_cap = max(1, nworkers // len(caps))
    for cap, b in caps:
        pf = os.path.join(d, "prefix%d.txt" % cap)
        open(pf, "w").write("0 5 %d 0 0\n" % b)
        for i in range(per_cap):
            out = os.path.join(d, "c%d_%d" % (cap, i))
            os.makedirs(os.path.join(out, "s"), exist_ok=True)
            env = dict(env_base)
            env.update({"VH_OUT": out, "VH_SCRATCH": os.path.join(out, "s"), "VH_ENUM_ALPHABET": os.path.join(d, "alphabet.txt"),
                        "VH_ENUM_PREFIX": pf, "VH_ENUM_DEPTH": str(depth), "VH_ENUM_SHARD": "%d/%d" % (i, per_cap)})
            from vcheck import _die_with_parent
            logf = open(os.path.join(out, "log"), "wb")
            procs.append((cap, out, subprocess.Popen([exe], env=env, stdout=logf, stderr=subprocess.STDOUT, cwd=out, preexec_fn=_die_with_parent), logf))
    stats, cands = [], []
    total = 0
    for cap, out, p, logf in procs:
        rc = p.wait()
        logf.close()
        try:
            st = json.load(open(os.path.join(out, "stats.json")))
            stats.append((out, st))
            total += st["evaluations"]
        except Exception:
            st = None
        if rc == 1:
            for ft in sorted(os.listdir(out)):
                if ft.startswith("fail-") and ft.endswith(".tape"):
                    sig = open(os.path.join(out, ft + ".sig")).read().split("\n")
                    cands.append(("bounded-exhaustive:cap%d" % cap, open(os.path.join(out, ft), "rb").read(), "verdict:" + sig[0], {"msg": sig[1] if len(sig) > 1 else ""}))
        elif rc != 0:
            log = open(os.path.join(out, "log"), "rb").read().decode("utf-8", "replace")
            cur = os.path.join(out, "cur.tape")
            from vcheck import read_cur_tape
            cands.append(("bounded-exhaustive-crash:cap%d" % cap, read_cur_tape(cur), "crash:" + _crash(log), {"log": log[-2000:]}))
    expected = sum(len(alphabet) ** k for k in range(1, depth + 1)) * len(caps)
    extra = {"bounded_exhaustive": {"alphabet_tokens": len(alphabet), "depth": depth, "capacities": [c for c, _ in caps], "tapes_run": total,
                                    "tapes_in_space": expected, "exhaustive_within_bound": total == expected,
                                    "alphabet": "W_WRITE{1,2,cap-1,to-end} W_MAP(2) W_COMMIT W_ABORT R_READ{r0 all,r0 1 byte,r0 none,r1 all} R_MAP(r0; on a mapped reader that holds everything = the refused map-while-mapped) R_UNMAP(r0 all) ACCEPT{0,1} PREWAIT(on) PRELOCK(on) REWIND"}}
    return stats, cands, extra


# ------------------------------------------------------------------------------------------ rt
def rt_fault_enum(prop, harness, cfg, budget, targets, scratch, known_path, seed, env_base, nworkers, full):
    """C09: for each base scenario the k-th camera frame call / storage append fails, for every k from 0
    to past the end of the acquisition, ended by stop and by abort, under two schedules, followed by a
    fault-free acquisition.  Token kinds of harness/rt/rt.cpp."""
    exe = targets["rp"].out
    RUN, STREAM, CAM, PACE, AVG, DELAY, RING, FAULT, CONFIGURE, START, STOP_DONE, STOP_NOW, ABORT, ABORT_OTHER, TRIGGER, MAP, UNMAP, SLEEP, GET_STATE, REINIT, SCHED = range(21)
    nframes = 12
    cam = tok(CAM, 0, 12, 8, nframes - 1)  # stream 0, u8, 4x3 pixels, 12 frames
    nopace = 40  # PACE field a: no "no-frame" returns, no hardware-id gaps, no trigger
    scenarios = {
        "source-blocked": cam + tok(PACE, nopace, 0) + tok(DELAY, 0, 0, 3) + tok(RING, 1, 1),      # camera as fast as possible, 30 ms per append, ring 1.5 frames
        "paced": cam + tok(PACE, nopace, 3) + tok(RING, 3, 3),                                     # 1 ms period, ring 2.5 frames
        "two-streams": cam + tok(CAM, 1, 5, 9, 8) + tok(STREAM, 1 | 2 | 16) + tok(PACE, nopace, 2) + tok(RING, 2, 2),
        "monitored": cam + tok(PACE, nopace, 1) + tok(RING, 4, 4),
    }
    tapes = []
    points = 0
    ks = list(range(0, nframes + 3)) if full else [0, 1, 2, 3, 5, 8, nframes - 1, nframes, nframes + 2]
    for name, base in scenarios.items():
        for site in (1, 2):
            for k in ks:
                for end in ("stop", "abort"):
                    for sched in ((0, 0, 0, 0), (1, 977, 31337, 4242)):
                        t = tok(SCHED, *sched) if sched[1] else b""
                        t += base + tok(FAULT, (site - 1) << 1, k, 1) + tok(START)
                        if name == "monitored":
                            t += tok(MAP, 0)
                        t += (tok(STOP_DONE) if end == "stop" else tok(SLEEP, 7) + tok(ABORT))
                        t += tok(RUN, 4, 1000 + k, 77, 5)  # a fault-free acquisition afterwards
                        tapes.append(("%s-site%d-k%d-%s-s%d" % (name, site, k, end, sched[0]), t))
                        points += 1
        for site in (3, 4):  # storage start / camera start fail
            for end in ("stop", "abort"):
                t = base + tok(FAULT, (site - 1) << 1, 0, 1) + tok(START) + (tok(STOP_DONE) if end == "stop" else tok(ABORT)) + tok(RUN, 4, 999, 77, 5)
                tapes.append(("%s-site%d-%s" % (name, site, end), t))
                points += 1
    stats, cands, _ = run_batches(exe, tapes, scratch, env_base, "fault-enumeration", nworkers, "rtenum")
    extra = {"fault_enumeration": {"scenarios": list(scenarios), "fault_sites": ["camera get_frame #k", "storage append #k", "storage start", "camera start"],
                                   "frame_indices": ks, "endings": ["stop", "abort"], "schedules": 2, "fault_points_enumerated": points,
                                   "every_index": bool(full)}}
    return stats, cands, extra
