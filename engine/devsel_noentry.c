/* A shared library without the driver entry point. */
int devsel_noentry_marker(void) { return 42; }
