/* Trampoline driver library: placed next to a harness executable under one of the optional driver
 * names (e.g. libacquire-driver-zarr.so).  The real loader dlopens it and calls
 * acquire_driver_init_v0, which calls back into the executable (linked with -rdynamic). */
struct Driver;
typedef void (*reporter_t)(int, const char*, int, const char*, const char*);
extern struct Driver* vmock_driver_init(reporter_t);
struct Driver*
acquire_driver_init_v0(reporter_t reporter)
{
    return vmock_driver_init(reporter);
}
