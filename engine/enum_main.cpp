// enum_main.cpp — bounded-exhaustive front-end: runs EVERY tape of length 1..depth over a small
// alphabet of tokens (optionally after a fixed prefix), sharded across processes.
//   VH_ENUM_ALPHABET  file: one token per line "k a b c d"
//   VH_ENUM_PREFIX    file: tokens executed first in every tape (may be empty / absent)
//   VH_ENUM_DEPTH     maximum number of alphabet tokens per tape
//   VH_ENUM_SHARD     "i/n": this process handles the tapes whose first two alphabet indices
//                     (i0 * |alphabet| + i1) are congruent to i modulo n
// Failing tapes are written to VH_OUT/fail-<n>.tape (at most 20); statistics to VH_OUT/stats.json.
#include "fe_common.hpp"

#include <cstdio>

static std::vector<VhTok>
load_tokens(const char* path)
{
    std::vector<VhTok> v;
    if (!path)
        return v;
    FILE* f = fopen(path, "r");
    if (!f)
        return v;
    unsigned k, a, b, c, d;
    while (fscanf(f, "%u %u %u %u %u", &k, &a, &b, &c, &d) == 5)
        v.push_back(VhTok{ (uint8_t)k, (uint8_t)a, (uint16_t)b, (uint16_t)c, (uint16_t)d });
    fclose(f);
    return v;
}

int
main()
{
    fe::init_options();
    const VhSpec* spec = vh_spec();
    fe::Stats st;
    st.spec = spec;
    st.engine = "bounded-exhaustive";
    st.distinct_cap = 200000;
    std::vector<VhTok> alpha = load_tokens(getenv("VH_ENUM_ALPHABET"));
    std::vector<VhTok> prefix = load_tokens(getenv("VH_ENUM_PREFIX"));
    int depth = getenv("VH_ENUM_DEPTH") ? atoi(getenv("VH_ENUM_DEPTH")) : 4;
    int shard = 0, nshards = 1;
    if (const char* s = getenv("VH_ENUM_SHARD"))
        sscanf(s, "%d/%d", &shard, &nshards);
    size_t A = alpha.size();
    if (!A || depth < 1) {
        fprintf(stderr, "enum_main: empty alphabet or depth\n");
        return 2;
    }
    fe::CurTape cur;
    cur.open(fe::g_outdir + "/cur.tape");
    std::vector<size_t> idx;
    std::vector<VhTok> tape;
    int nfail = 0;
    uint64_t total = 0;
    for (int len = 1; len <= depth; ++len) {
        idx.assign(len, 0);
        for (;;) {
            size_t key = idx[0] * A + (len > 1 ? idx[1] : 0);
            if ((int)(key % (size_t)nshards) == shard) {
                tape = prefix;
                for (int i = 0; i < len; ++i)
                    tape.push_back(alpha[idx[i]]);
                cur.put(tape.data(), tape.size());
                VhReport r;
                memset(&r, 0, sizeof r);
                vh_run(tape.data(), tape.size(), &r);
                st.account(tape.data(), tape.size(), r, false);
                ++total;
                if (r.verdict) {
                    if (!st.failed) {
                        st.failed = true;
                        st.fail_rep = r;
                        st.fail_rep.trace = nullptr;
                        st.fail_tape = tape;
                    }
                    if (nfail < 20) {
                        char name[64];
                        snprintf(name, sizeof name, "/fail-%d.tape", nfail);
                        fe::write_tape(fe::g_outdir + name, tape.data(), tape.size());
                        FILE* f = fopen((fe::g_outdir + name + ".sig").c_str(), "w");
                        if (f) {
                            fprintf(f, "%s\n%s\n", r.sig, r.msg);
                            fclose(f);
                        }
                    }
                    ++nfail;
                }
                st.dump(false);
            }
            // next index vector (odometer)
            int p = len - 1;
            while (p >= 0 && ++idx[p] == A) {
                idx[p] = 0;
                --p;
            }
            if (p < 0)
                break;
        }
    }
    st.dump(true);
    printf("ENUM total=%llu failures=%d\n", (unsigned long long)total, nfail);
    return nfail ? 1 : 0;
}
