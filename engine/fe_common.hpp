// fe_common.hpp — shared by the front-ends (rc_main, fz_main, rp_main, enum_main):
// option handling, statistics, tape files, JSON dump.
#pragma once
#include "vh.h"
#include <algorithm>
#include <chrono>
#include <cstdlib>
#include <cstring>
#include <fcntl.h>
#include <sys/mman.h>
#include <string>
#include <unistd.h>
#include <unordered_set>
#include <vector>

const char* vh_focus = nullptr;
const char* const* vh_known = nullptr;
int vh_nknown = 0;
const char* vh_scratch = nullptr;

namespace fe {

static std::vector<std::string> g_known_store;
static std::vector<const char*> g_known_ptrs;
static std::string g_outdir;
static std::string g_scratch;

static inline double
now_s()
{
    using namespace std::chrono;
    return duration<double>(steady_clock::now().time_since_epoch()).count();
}

static inline std::string
json_escape(const std::string& s)
{
    std::string o;
    for (unsigned char c : s) {
        switch (c) {
            case '"': o += "\\\""; break;
            case '\\': o += "\\\\"; break;
            case '\n': o += "\\n"; break;
            case '\r': o += "\\r"; break;
            case '\t': o += "\\t"; break;
            default:
                if (c < 0x20 || c >= 0x7f) {
                    char b[8];
                    snprintf(b, sizeof b, "\\u%04x", c);
                    o += b;
                } else
                    o += (char)c;
        }
    }
    return o;
}

// Environment:
//   VH_FOCUS   property id whose failures are fatal ("" = all)
//   VH_KNOWN   path of a file with one tolerated signature per line
//   VH_OUT     directory for stats.json / fail.tape / cur.tape / samples
//   VH_SCRATCH private scratch directory for the harness
static inline void
init_options()
{
    vh_focus = getenv("VH_FOCUS");
    if (const char* k = getenv("VH_KNOWN")) {
        if (FILE* f = fopen(k, "r")) {
            char line[512];
            while (fgets(line, sizeof line, f)) {
                size_t n = strlen(line);
                while (n && (line[n - 1] == '\n' || line[n - 1] == '\r'))
                    line[--n] = 0;
                if (n)
                    g_known_store.emplace_back(line);
            }
            fclose(f);
        }
    }
    for (auto& s : g_known_store)
        g_known_ptrs.push_back(s.c_str());
    vh_known = g_known_ptrs.data();
    vh_nknown = (int)g_known_ptrs.size();
    const char* o = getenv("VH_OUT");
    g_outdir = o ? o : ".";
    const char* s = getenv("VH_SCRATCH");
    g_scratch = s ? s : g_outdir;
    vh_scratch = g_scratch.c_str();
}

static inline bool
write_tape(const std::string& path, const VhTok* t, size_t n)
{
    FILE* f = fopen(path.c_str(), "wb");
    if (!f)
        return false;
    for (size_t i = 0; i < n; ++i) {
        uint8_t b[8] = { t[i].kind,
                         t[i].a,
                         (uint8_t)(t[i].b & 0xff),
                         (uint8_t)(t[i].b >> 8),
                         (uint8_t)(t[i].c & 0xff),
                         (uint8_t)(t[i].c >> 8),
                         (uint8_t)(t[i].d & 0xff),
                         (uint8_t)(t[i].d >> 8) };
        fwrite(b, 1, 8, f);
    }
    fclose(f);
    return true;
}

static inline std::vector<VhTok>
bytes_to_tape(const uint8_t* d, size_t size)
{
    std::vector<VhTok> t(size / 8);
    for (size_t i = 0; i < t.size(); ++i) {
        const uint8_t* b = d + 8 * i;
        t[i].kind = b[0];
        t[i].a = b[1];
        t[i].b = (uint16_t)(b[2] | (b[3] << 8));
        t[i].c = (uint16_t)(b[4] | (b[5] << 8));
        t[i].d = (uint16_t)(b[6] | (b[7] << 8));
    }
    return t;
}

static inline bool
read_tape(const std::string& path, std::vector<VhTok>& out)
{
    FILE* f = fopen(path.c_str(), "rb");
    if (!f)
        return false;
    std::vector<uint8_t> buf;
    uint8_t tmp[4096];
    size_t n;
    while ((n = fread(tmp, 1, sizeof tmp, f)) > 0)
        buf.insert(buf.end(), tmp, tmp + n);
    fclose(f);
    out = bytes_to_tape(buf.data(), buf.size());
    return true;
}

// A sequence file holds several tapes that are to run one after the other in ONE process (a failure that
// depends on what an earlier case left behind in the code under test: a `static`, a registry, a leaked
// handle).  Format: "VHSEQ1\n", then per tape a little-endian u32 token count and the tokens.
static const char kSeqMagic[] = "VHSEQ1\n";
static inline bool
read_seq(const std::string& path, std::vector<std::vector<VhTok>>& out)
{
    FILE* f = fopen(path.c_str(), "rb");
    if (!f)
        return false;
    std::vector<uint8_t> buf;
    uint8_t tmp[4096];
    size_t n;
    while ((n = fread(tmp, 1, sizeof tmp, f)) > 0)
        buf.insert(buf.end(), tmp, tmp + n);
    fclose(f);
    if (buf.size() < 7 || memcmp(buf.data(), kSeqMagic, 7) != 0)
        return false;
    size_t i = 7;
    while (i + 4 <= buf.size()) {
        uint32_t nt = (uint32_t)buf[i] | ((uint32_t)buf[i + 1] << 8) | ((uint32_t)buf[i + 2] << 16) | ((uint32_t)buf[i + 3] << 24);
        i += 4;
        if (i + 8ull * nt > buf.size())
            break;
        out.push_back(bytes_to_tape(buf.data() + i, 8ull * nt));
        i += 8ull * nt;
    }
    return true;
}
static inline void
append_seq(FILE* f, const VhTok* t, size_t n)
{
    uint8_t h[4] = { (uint8_t)(n & 0xff), (uint8_t)((n >> 8) & 0xff), (uint8_t)((n >> 16) & 0xff), (uint8_t)((n >> 24) & 0xff) };
    fwrite(h, 1, 4, f);
    for (size_t i = 0; i < n; ++i) {
        uint8_t b[8] = { t[i].kind, t[i].a, (uint8_t)(t[i].b & 0xff), (uint8_t)(t[i].b >> 8), (uint8_t)(t[i].c & 0xff), (uint8_t)(t[i].c >> 8),
                         (uint8_t)(t[i].d & 0xff), (uint8_t)(t[i].d >> 8) };
        fwrite(b, 1, 8, f);
    }
}

// cur.tape: written before each case so that a dying process leaves its input behind.
// A shared mapping (no system call per case): 8-byte token count, then the tokens.
struct CurTape
{
    uint8_t* map = nullptr;
    size_t cap = 8 + 8 * 4096;
    void open(const std::string& path)
    {
        int fd = ::open(path.c_str(), O_CREAT | O_RDWR | O_TRUNC, 0644);
        if (fd < 0)
            return;
        if (ftruncate(fd, (off_t)cap) == 0) {
            void* m = mmap(nullptr, cap, PROT_READ | PROT_WRITE, MAP_SHARED, fd, 0);
            if (m != MAP_FAILED)
                map = (uint8_t*)m;
        }
        ::close(fd);
    }
    void put(const VhTok* t, size_t n)
    {
        if (!map)
            return;
        if (n > 4096)
            n = 4096;
        uint64_t n64 = n;
        memcpy(map, &n64, 8);
        for (size_t i = 0; i < n; ++i) {
            uint8_t* p = map + 8 + 8 * i;
            p[0] = t[i].kind;
            p[1] = t[i].a;
            p[2] = t[i].b & 0xff;
            p[3] = t[i].b >> 8;
            p[4] = t[i].c & 0xff;
            p[5] = t[i].c >> 8;
            p[6] = t[i].d & 0xff;
            p[7] = t[i].d >> 8;
        }
    }
};

static inline std::string
render(const VhTok* t, size_t n)
{
    char* buf = nullptr;
    size_t len = 0;
    FILE* ms = open_memstream(&buf, &len);
    VhReport r;
    memset(&r, 0, sizeof r);
    r.trace = ms;
    vh_run(t, n, &r);
    fclose(ms);
    std::string s(buf ? buf : "", len);
    free(buf);
    return s;
}

struct Stats
{
    const VhSpec* spec = nullptr;
    std::string engine;
    uint64_t evaluations = 0;   // generated cases executed
    uint64_t shrink_evals = 0;  // executions during shrinking
    uint64_t skipped = 0;       // cases skipped because the time cap was reached
    uint64_t steps = 0;
    uint64_t class_count[VH_MAX_CLASSES] = { 0 };
    uint64_t nontrivial_count[VH_MAX_PROPS] = { 0 };
    uint64_t other_fail[VH_MAX_PROPS] = { 0 };
    uint64_t excluded[VH_MAX_PROPS] = { 0 };
    std::unordered_set<uint64_t> distinct[VH_MAX_PROPS];
    std::vector<std::string> samples[VH_MAX_PROPS];
    size_t distinct_cap = 250000; // per worker: distinct_nontrivial is a lower bound beyond this
    bool failed = false;
    VhReport fail_rep;
    std::vector<VhTok> fail_tape;
    double t0 = now_s();
    double last_dump = 0;

    int nprops() const
    {
        int n = 0;
        while (n < VH_MAX_PROPS && spec->props[n])
            ++n;
        return n;
    }

    void account(const VhTok* t, size_t n, const VhReport& r, bool shrinking)
    {
        if (shrinking) {
            ++shrink_evals;
            return;
        }
        ++evaluations;
        steps += r.steps;
        for (int j = 0; j < VH_MAX_CLASSES && spec->classes[j]; ++j)
            if ((r.classes >> j) & 1)
                ++class_count[j];
        int np = nprops();
        for (int i = 0; i < np; ++i) {
            if ((r.other_fail >> i) & 1)
                ++other_fail[i];
            if ((r.excluded >> i) & 1)
                ++excluded[i];
            if ((r.nontrivial >> i) & 1) {
                ++nontrivial_count[i];
                bool fresh = false;
                if (distinct[i].size() < distinct_cap)
                    fresh = distinct[i].insert(r.hash).second;
                if (fresh && samples[i].size() < 3 && n <= 60)
                    samples[i].push_back(render(t, n));
            }
        }
    }

    void dump(bool final_)
    {
        double now = now_s();
        if (!final_ && now - last_dump < 2.0)
            return;
        last_dump = now;
        std::string tmp = g_outdir + "/stats.json.tmp";
        FILE* f = fopen(tmp.c_str(), "w");
        if (!f)
            return;
        int np = nprops();
        fprintf(f, "{\"harness\":\"%s\",\"engine\":\"%s\",\"final\":%s,", spec->harness, engine.c_str(), final_ ? "true" : "false");
        fprintf(f, "\"evaluations\":%llu,\"shrink_evals\":%llu,\"skipped\":%llu,\"steps\":%llu,\"wall_s\":%.3f,",
                (unsigned long long)evaluations, (unsigned long long)shrink_evals, (unsigned long long)skipped,
                (unsigned long long)steps, now - t0);
        fprintf(f, "\"classes\":{");
        for (int j = 0; j < VH_MAX_CLASSES && spec->classes[j]; ++j)
            fprintf(f, "%s\"%s\":%llu", j ? "," : "", spec->classes[j], (unsigned long long)class_count[j]);
        fprintf(f, "},\"props\":{");
        for (int i = 0; i < np; ++i) {
            fprintf(f, "%s\"%s\":{\"rule\":\"%s\",\"nontrivial\":%llu,\"distinct_nontrivial\":%llu,\"other_fail\":%llu,\"excluded\":%llu,\"samples\":[",
                    i ? "," : "", spec->props[i], json_escape(spec->rules[i] ? spec->rules[i] : "").c_str(), (unsigned long long)nontrivial_count[i],
                    (unsigned long long)distinct[i].size(), (unsigned long long)other_fail[i],
                    (unsigned long long)excluded[i]);
            for (size_t k = 0; k < samples[i].size(); ++k)
                fprintf(f, "%s\"%s\"", k ? "," : "", json_escape(samples[i][k]).c_str());
            fprintf(f, "]}");
        }
        fprintf(f, "},\"failed\":%s", failed ? "true" : "false");
        if (failed) {
            fprintf(f, ",\"fail\":{\"prop\":\"%s\",\"check\":\"%s\",\"sig\":\"%s\",\"msg\":\"%s\",\"ntok\":%zu}",
                    json_escape(fail_rep.prop).c_str(), json_escape(fail_rep.check).c_str(),
                    json_escape(fail_rep.sig).c_str(), json_escape(fail_rep.msg).c_str(), fail_tape.size());
        }
        fprintf(f, "}\n");
        fclose(f);
        rename(tmp.c_str(), (g_outdir + "/stats.json").c_str());
        if (final_) {
            // distinct hashes for cross-worker de-duplication
            for (int i = 0; i < np; ++i) {
                std::string p = g_outdir + "/distinct." + spec->props[i] + ".bin";
                FILE* h = fopen(p.c_str(), "wb");
                if (!h)
                    continue;
                std::vector<uint64_t> v(distinct[i].begin(), distinct[i].end());
                if (!v.empty())
                    fwrite(v.data(), 8, v.size(), h);
                fclose(h);
            }
        }
    }
};

} // namespace fe
