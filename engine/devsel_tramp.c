/* Trampoline driver for harness devsel: compiled once per optional driver slot with -DSLOT=n. */
struct Driver;
typedef void (*reporter_t)(int, const char*, int, const char*, const char*);
extern struct Driver* vmock_devsel_init(int slot, reporter_t);
struct Driver*
acquire_driver_init_v0(reporter_t reporter)
{
    return vmock_devsel_init(SLOT, reporter);
}
