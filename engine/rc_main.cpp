// rc_main.cpp — generic rapidcheck front-end.  Builds Gen<std::vector<VhTok>> from the harness'
// spec table, runs vh_run on every generated tape, lets rapidcheck shrink, writes the minimal
// failing tape and the statistics.  Configuration only through RC_PARAMS (seed, max_success,
// max_size) and the VH_* environment (see fe_common.hpp).  VH_TIME_CAP (seconds, optional) makes
// the remaining cases no-ops once exceeded (reported as skipped = inconclusive, never a verdict).
#include "fe_common.hpp"
#include <rapidcheck.h>

#include <deque>
#include <iostream>
#include <tuple>

static void
showValue(const VhTok& t, std::ostream& os)
{
    os << "(" << (int)t.kind << "," << (int)t.a << "," << t.b << "," << t.c << "," << t.d << ")";
}
namespace rc {
template<>
struct Arbitrary<VhTok>
{
    static Gen<VhTok> arbitrary() { return gen::just(VhTok{}); }
};
void
showValue(const VhTok& t, std::ostream& os)
{
    ::showValue(t, os);
}
}

int
main(int argc, char** argv)
{
    (void)argc;
    (void)argv;
    fe::init_options();
    const VhSpec* spec = vh_spec();
    fe::Stats st;
    st.spec = spec;
    st.engine = "rapidcheck";
    double cap = 0;
    if (const char* c = getenv("VH_TIME_CAP"))
        cap = atof(c);
    fe::CurTape cur;
    cur.open(fe::g_outdir + "/cur.tape");

    uint32_t total_w = 0;
    std::vector<uint32_t> cum;
    for (int k = 0; k < spec->nkinds; ++k) {
        total_w += spec->kinds[k].weight;
        cum.push_back(total_w);
    }

    using namespace rc;
    auto tokGen = gen::resize(
      100,
      gen::map(gen::tuple(gen::inRange<int>(0, (int)total_w),
                          gen::inRange<int>(0, 256),
                          gen::inRange<int>(0, 65536),
                          gen::inRange<int>(0, 65536),
                          gen::inRange<int>(0, 65536)),
               [spec, cum](const std::tuple<int, int, int, int, int>& v) {
                   VhTok t;
                   int k = 0;
                   while (k + 1 < (int)cum.size() && (uint32_t)std::get<0>(v) >= cum[k])
                       ++k;
                   const VhKindSpec& ks = spec->kinds[k];
                   t.kind = (uint8_t)k;
                   t.a = (uint8_t)(std::get<1>(v) % (ks.a_max + 1));
                   t.b = (uint16_t)(std::get<2>(v) % ((int)ks.b_max + 1));
                   t.c = (uint16_t)(std::get<3>(v) % ((int)ks.c_max + 1));
                   t.d = (uint16_t)(std::get<4>(v) % ((int)ks.d_max + 1));
                   return t;
               }));
    auto tapeGen = gen::container<std::vector<VhTok>>(tokGen);

    bool in_shrink = false;
    uint64_t shrink_budget = getenv("VH_SHRINK_EVALS") ? strtoull(getenv("VH_SHRINK_EVALS"), nullptr, 10) : 4000;
    double shrink_secs = getenv("VH_SHRINK_SECS") ? atof(getenv("VH_SHRINK_SECS")) : 45.0;
    double shrink_t0 = 0;
    bool ok = rc::check(std::string("harness ") + spec->harness, [&]() {
        std::vector<VhTok> tape = *tapeGen;
        if ((int)tape.size() > spec->max_len)
            tape.resize(spec->max_len);
        if (cap > 0 && !in_shrink && fe::now_s() - st.t0 > cap) {
            ++st.skipped;
            return;
        }
        if (in_shrink && (st.shrink_evals > shrink_budget || fe::now_s() - shrink_t0 > shrink_secs))
            return; // shrink budget used up: remaining candidates count as passing, the best so far stays
        cur.put(tape.data(), tape.size());
        // VH_DUMP_TAPES=<n>: keep the first n generated tapes (determinism self-test, vcheck.py selftest)
        static int dump_left = getenv("VH_DUMP_TAPES") ? atoi(getenv("VH_DUMP_TAPES")) : 0;
        static int dump_no = 0;
        if (dump_left > 0 && !in_shrink) {
            --dump_left;
            char nm[64];
            snprintf(nm, sizeof nm, "/gen-%05d.tape", dump_no++);
            fe::write_tape(fe::g_outdir + nm, tape.data(), tape.size());
        }
        // every tape this process has run before its first failure, in order: a failure that no fresh process
        // reproduces is replayed as a sequence (hist.seq, minimised by vcheck.py)
        static std::deque<std::vector<VhTok>> history; // (the most recent 4096: what vcheck.py is prepared to replay)
        if (!in_shrink) {
            history.push_back(tape);
            if (history.size() > 4096)
                history.pop_front();
        }
        VhReport r;
        memset(&r, 0, sizeof r);
        vh_run(tape.data(), tape.size(), &r);
        st.account(tape.data(), tape.size(), r, in_shrink);
        if (r.verdict && !in_shrink) {
            if (FILE* hf = fopen((fe::g_outdir + "/hist.seq").c_str(), "wb")) {
                fwrite(fe::kSeqMagic, 1, 7, hf);
                for (auto& h : history)
                    fe::append_seq(hf, h.data(), h.size());
                fclose(hf);
            }
            history.clear();
            history.shrink_to_fit();
        }
        if (r.verdict) {
            if (!in_shrink)
                shrink_t0 = fe::now_s();
            in_shrink = true; // everything rapidcheck runs after the first failure is shrinking
            st.failed = true;
            st.fail_rep = r;
            st.fail_rep.trace = nullptr;
            st.fail_tape = tape;
        }
        st.dump(false);
        RC_ASSERT(r.verdict == 0);
    });

    if (!ok && st.failed) {
        fe::write_tape(fe::g_outdir + "/fail.tape", st.fail_tape.data(), st.fail_tape.size());
        std::string txt = fe::render(st.fail_tape.data(), st.fail_tape.size());
        if (FILE* f = fopen((fe::g_outdir + "/fail.txt").c_str(), "w")) {
            fputs(txt.c_str(), f);
            fclose(f);
        }
    }
    st.dump(true);
    return ok ? 0 : 1;
}
