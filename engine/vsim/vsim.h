// vsim — deterministic cooperative scheduler and virtual clock under the real platform.c.
// platform.c is compiled with -Dpthread_mutex_lock=vp_mutex_lock ... (see vharness.py), so every
// thread/lock/condition/clock call of the code under test lands here.  One OS thread; fibers are
// ucontexts; every vp_* call begins with a scheduling point at which the director may switch.
// See DESIGN.md 2.4.
#pragma once
#include <stddef.h>
#include <stdint.h>

#ifdef __cplusplus
namespace vsim {

enum State
{
    FREE = 0,
    RUNNABLE,   // at a scheduling point (or freshly created); may be stepped
    BLK_MUTEX,  // waiting for a mutex
    BLK_COND,   // waiting on a condition variable
    BLK_JOIN,   // waiting for another fiber to end
    SLEEPING,   // waiting for a virtual deadline
    PARKED,     // harness actor waiting for the director (not a deadlock participant)
    DONE
};

enum Op
{
    OP_NONE = 0,
    OP_START,
    OP_LOCK,
    OP_TRYLOCK,
    OP_UNLOCK,
    OP_WAIT,
    OP_BROADCAST,
    OP_SIGNAL,
    OP_CREATE,
    OP_JOIN,
    OP_CLOCK,
    OP_SLEEP,
    OP_YIELD,
    OP_USER,   // explicit point placed by a harness (vsim::point)
    OP_EDGE,   // basic-block preemption (fine profile)
};

struct Info
{
    State st;
    Op op;            // the operation the fiber is about to perform (valid when RUNNABLE)
    const void* obj;  // its object (mutex / cond / ...)
    uint64_t wake_ns; // SLEEPING / timed waits
    const char* name;
    uint64_t points;  // scheduling points passed by this fiber
    int user_tag;     // set by vsim::point(tag)
};

void reset();                                              // start of a case: forget everything
int spawn(void (*fn)(void*), void* arg, const char* name); // create a fiber (from any context)
State step(int f);                                         // resume RUNNABLE fiber f until its next point
const Info& info(int f);
int nfibers();
int current(); // -1 = main (director) context
uint64_t now_ns();
void set_now_ns(uint64_t t);
bool advance_time(); // jump to the earliest deadline and wake its sleepers; false if nobody sleeps
uint64_t total_points();
void point(int tag);  // explicit scheduling point for harness code running in a fiber
void park();          // block the calling fiber until unpark()
void unpark(int f);
bool any(State s);
const char* op_name(Op o);
const char* state_name(State s);
const char* error(); // first model-level misuse (unlock by non-owner, ...) or NULL
// who holds the mutex at this address (-1 none, -2 main context)
int mutex_owner(const void* m);
// optional spurious-wakeup / signal-choice hook: returns index < n of the waiter to wake
extern int (*choose_waiter)(int n);
// fine profile: the fiber stepped next is preempted after k basic-block edges of code compiled with
// -fsanitize-coverage=trace-pc-guard (0 = only at platform calls).  One-shot: cleared by the preemption.
void set_edge_budget(uint64_t k);
uint64_t edges();
uint64_t edge_preemptions();

} // namespace vsim
#endif
