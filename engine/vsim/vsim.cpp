// vsim.cpp — see vsim.h and DESIGN.md 2.4.
#include "vsim.h"

#include <dlfcn.h>
#include <errno.h>
#include <pthread.h>
#include <stdio.h>
#include <stdlib.h>
#include <string.h>
#include <sys/mman.h>
#include <time.h>
#include <ucontext.h>
#include <vector>

#if defined(__has_feature)
#if __has_feature(address_sanitizer)
#define VSIM_ASAN 1
#endif
#endif
#ifdef VSIM_ASAN
#include <sanitizer/asan_interface.h>
#include <sanitizer/common_interface_defs.h>
#endif

namespace vsim {

static const int MAXF = 512;
static const size_t STACK = 512 * 1024;

struct Fiber
{
    ucontext_t ctx;
    char* stack = nullptr;
    Info info;
    void (*fn)(void*) = nullptr;
    void* (*pfn)(void*) = nullptr;
    void* arg = nullptr;
    void* fake = nullptr;
    int join_target = -1;
    bool timed = false;     // timed wait in progress
    bool timed_out = false; // ... and it expired
    int clock_reads = 0;    // since the last scheduling point
};

static Fiber* g_f[MAXF];
static int g_n = 0;
static int g_cur = -1;
static ucontext_t g_main;
static const void* g_main_bottom = nullptr;
static size_t g_main_size = 0;
static uint64_t g_now = 0;
static uint64_t g_points = 0;
static std::vector<char*> g_free_stacks;
static char g_err[256];
static bool g_has_err = false;
static uint64_t g_edge_budget = 0; // fine profile: preempt the running fiber after this many basic-block edges (0 = off)
static uint64_t g_edges = 0;
static uint64_t g_edge_preempts = 0;
int (*choose_waiter)(int n) = nullptr;

// AddressSanitizer intercepts swapcontext and clears the shadow of a whole stack on every call
// (one mmap + two madvise per switch for 512 KiB stacks: >80 % of the run time).  The fibers are
// announced to ASan through __sanitizer_start/finish_switch_fiber and their stacks are unpoisoned
// when recycled, so the plain libc function is what is wanted here.
typedef int (*swap_fn)(ucontext_t*, const ucontext_t*);
static swap_fn
real_swapcontext()
{
    static swap_fn f = nullptr;
    if (!f) {
        f = (swap_fn)dlsym(RTLD_NEXT, "swapcontext");
        if (!f)
            f = &swapcontext;
    }
    return f;
}
#define swapcontext(a, b) (real_swapcontext()((a), (b)))

static void
set_err(const char* what, const void* obj)
{
    if (!g_has_err) {
        snprintf(g_err, sizeof g_err, "%s (object %p, fiber %d '%s')", what, obj, g_cur,
                 g_cur >= 0 ? g_f[g_cur]->info.name : "main");
        g_has_err = true;
    }
}

const char*
error()
{
    return g_has_err ? g_err : nullptr;
}

static char*
get_stack()
{
    if (!g_free_stacks.empty()) {
        char* s = g_free_stacks.back();
        g_free_stacks.pop_back();
#ifdef VSIM_ASAN
        ASAN_UNPOISON_MEMORY_REGION(s, STACK);
#endif
        return s;
    }
    char* m = (char*)mmap(nullptr, STACK + 4096, PROT_READ | PROT_WRITE, MAP_PRIVATE | MAP_ANONYMOUS | MAP_NORESERVE, -1, 0);
    if (m == (char*)MAP_FAILED) {
        perror("vsim: mmap stack");
        abort();
    }
    mprotect(m, 4096, PROT_NONE); // guard page below the stack
    return m + 4096;
}

static void
yield_to_main()
{
    Fiber& F = *g_f[g_cur];
#ifdef VSIM_ASAN
    __sanitizer_start_switch_fiber(&F.fake, g_main_bottom, g_main_size);
#endif
    swapcontext(&F.ctx, &g_main);
#ifdef VSIM_ASAN
    __sanitizer_finish_switch_fiber(F.fake, &g_main_bottom, &g_main_size);
#endif
}

static void
wake_joiners(int target)
{
    for (int i = 0; i < g_n; ++i)
        if (g_f[i]->info.st == BLK_JOIN && g_f[i]->join_target == target)
            g_f[i]->info.st = RUNNABLE;
}

static void
trampoline(int idx)
{
#ifdef VSIM_ASAN
    __sanitizer_finish_switch_fiber(nullptr, &g_main_bottom, &g_main_size);
#endif
    Fiber& F = *g_f[idx];
    if (F.fn)
        F.fn(F.arg);
    else if (F.pfn)
        F.pfn(F.arg);
    F.info.st = DONE;
    F.info.op = OP_NONE;
    wake_joiners(idx);
#ifdef VSIM_ASAN
    __sanitizer_start_switch_fiber(nullptr, g_main_bottom, g_main_size);
#endif
    swapcontext(&F.ctx, &g_main);
    abort(); // a finished fiber is never resumed
}

static int
spawn_impl(void (*fn)(void*), void* (*pfn)(void*), void* arg, const char* name)
{
    if (g_n >= MAXF) {
        set_err("too many fibers in one case", nullptr);
        return -1;
    }
    if (!g_f[g_n])
        g_f[g_n] = new Fiber();
    Fiber& F = *g_f[g_n];
    if (!F.stack)
        F.stack = get_stack();
    memset(&F.info, 0, sizeof F.info);
    F.info.st = RUNNABLE;
    F.info.op = OP_START;
    F.info.name = name ? name : "thread";
    F.fn = fn;
    F.pfn = pfn;
    F.arg = arg;
    F.fake = nullptr;
    F.join_target = -1;
    F.timed = F.timed_out = false;
    F.clock_reads = 0; // (Fiber objects are reused across cases: nothing may leak into the next case)
    getcontext(&F.ctx);
    F.ctx.uc_stack.ss_sp = F.stack;
    F.ctx.uc_stack.ss_size = STACK;
    F.ctx.uc_link = nullptr;
    makecontext(&F.ctx, (void (*)())trampoline, 1, g_n);
    return g_n++;
}

int
spawn(void (*fn)(void*), void* arg, const char* name)
{
    return spawn_impl(fn, nullptr, arg, name);
}

void
reset()
{
    // Abandon everything.  Stacks go back to the pool (unpoisoned on reuse).
    for (int i = 0; i < g_n; ++i) {
        Fiber& F = *g_f[i];
        if (F.stack) {
            g_free_stacks.push_back(F.stack);
            F.stack = nullptr;
        }
        F.info.st = FREE;
    }
    g_n = 0;
    g_cur = -1;
    g_now = 1000000000ull; // 1 s: clocks never read 0
    g_points = 0;
    g_has_err = false;
    g_edge_budget = 0;
    g_edges = 0;
    g_edge_preempts = 0;
    choose_waiter = nullptr;
}

static void
wake_due()
{
    for (int i = 0; i < g_n; ++i) {
        Fiber& F = *g_f[i];
        if (F.info.st == SLEEPING && F.info.wake_ns <= g_now)
            F.info.st = RUNNABLE;
        else if (F.info.st == BLK_COND && F.timed && F.info.wake_ns <= g_now) {
            F.timed_out = true;
            F.info.st = RUNNABLE;
        } else if (F.info.st == BLK_MUTEX && F.timed && F.info.wake_ns <= g_now) {
            F.timed_out = true;
            F.info.st = RUNNABLE;
        }
    }
}

State
step(int f)
{
    if (f < 0 || f >= g_n || g_f[f]->info.st != RUNNABLE || g_cur != -1) {
        set_err("vsim::step on a fiber that is not runnable", nullptr);
        return f >= 0 && f < g_n ? g_f[f]->info.st : FREE;
    }
    Fiber& F = *g_f[f];
    g_cur = f;
#ifdef VSIM_ASAN
    void* fake = nullptr;
    __sanitizer_start_switch_fiber(&fake, F.stack, STACK);
#endif
    swapcontext(&g_main, &F.ctx);
#ifdef VSIM_ASAN
    const void* ob;
    size_t os;
    __sanitizer_finish_switch_fiber(fake, &ob, &os);
#endif
    g_cur = -1;
    wake_due();
    if (F.info.st == DONE && F.stack) {
        g_free_stacks.push_back(F.stack);
        F.stack = nullptr;
    }
    return F.info.st;
}

const Info&
info(int f)
{
    static Info none = { FREE, OP_NONE, nullptr, 0, "?", 0, 0 };
    return (f >= 0 && f < g_n) ? g_f[f]->info : none;
}
int
nfibers()
{
    return g_n;
}
int
current()
{
    return g_cur;
}
uint64_t
now_ns()
{
    return g_now;
}
void
set_now_ns(uint64_t t)
{
    g_now = t;
    wake_due();
}
uint64_t
total_points()
{
    return g_points;
}

bool
advance_time()
{
    uint64_t best = ~0ull;
    for (int i = 0; i < g_n; ++i) {
        Fiber& F = *g_f[i];
        if (F.info.st == SLEEPING || ((F.info.st == BLK_COND || F.info.st == BLK_MUTEX) && F.timed))
            if (F.info.wake_ns < best)
                best = F.info.wake_ns;
    }
    if (best == ~0ull)
        return false;
    if (best > g_now)
        g_now = best;
    wake_due();
    return true;
}

bool
any(State s)
{
    for (int i = 0; i < g_n; ++i)
        if (g_f[i]->info.st == s)
            return true;
    return false;
}

static void
sched_point(Op op, const void* obj)
{
    if (g_cur < 0)
        return;
    Fiber& F = *g_f[g_cur];
    F.info.op = op;
    F.info.obj = obj;
    F.info.st = RUNNABLE;
    F.info.points++;
    F.clock_reads = 0;
    g_points++;
    yield_to_main();
}

} // namespace vsim
#ifndef VSIM_NO_EDGE_HOOK
// Fine profile (DESIGN.md 2.4): sources compiled with -fsanitize-coverage=trace-pc-guard call this on
// every basic-block edge.  When the director armed a budget for the fiber it is stepping, the
// fiber is preempted after that many edges -- between any two statements of the code under
// test, not only at lock/condition/clock calls -- so unlocked check-then-act sequences and plain
// shared flags see other threads in between.
extern "C" void
__sanitizer_cov_trace_pc_guard_init(uint32_t* start, uint32_t* stop)
{
    for (uint32_t* p = start; p < stop; ++p)
        if (!*p)
            *p = 1;
}
extern "C" void
__sanitizer_cov_trace_pc_guard(uint32_t*)
{
    using namespace vsim;
    if (g_cur < 0 || !g_edge_budget)
        return;
    ++g_edges;
    if (--g_edge_budget == 0) {
        ++g_edge_preempts;
        sched_point(OP_EDGE, nullptr);
    }
}
#endif
namespace vsim {

void
point(int tag)
{
    if (g_cur < 0)
        return;
    g_f[g_cur]->info.user_tag = tag;
    sched_point(OP_USER, nullptr);
}

void
park()
{
    if (g_cur < 0)
        return;
    Fiber& F = *g_f[g_cur];
    F.info.st = PARKED;
    F.info.op = OP_NONE;
    yield_to_main();
}

void
unpark(int f)
{
    if (f >= 0 && f < g_n && g_f[f]->info.st == PARKED)
        g_f[f]->info.st = RUNNABLE;
}

const char*
op_name(Op o)
{
    static const char* n[] = { "none", "start", "lock", "trylock", "unlock", "wait", "broadcast", "signal",
                               "create", "join", "clock", "sleep", "yield", "user", "edge" };
    return n[o];
}
const char*
state_name(State s)
{
    static const char* n[] = { "free", "runnable", "blocked-mutex", "blocked-cond", "blocked-join", "sleeping", "parked", "done" };
    return n[s];
}

void
set_edge_budget(uint64_t k)
{
    g_edge_budget = k;
}
uint64_t
edges()
{
    return g_edges;
}
uint64_t
edge_preemptions()
{
    return g_edge_preempts;
}

// ---- mutex representation: first 4 bytes of pthread_mutex_t = owner (0 free, 1 main, f+2 fiber f)
static inline uint32_t&
owner_of(pthread_mutex_t* m)
{
    return *(uint32_t*)m;
}
static inline uint32_t
me()
{
    return g_cur < 0 ? 1u : (uint32_t)(g_cur + 2);
}
int
mutex_owner(const void* m)
{
    uint32_t o = *(const uint32_t*)m;
    return o == 0 ? -1 : (o == 1 ? -2 : (int)o - 2);
}

static void
wake_mutex_waiters(const void* m)
{
    for (int i = 0; i < g_n; ++i)
        if (g_f[i]->info.st == BLK_MUTEX && g_f[i]->info.obj == m)
            g_f[i]->info.st = RUNNABLE;
}

static int
acquire(pthread_mutex_t* m)
{
    for (;;) {
        if (owner_of(m) == 0) {
            owner_of(m) = me();
            return 0;
        }
        if (owner_of(m) == me()) {
            set_err("relock of a mutex by its owner (would deadlock)", m);
            if (g_cur < 0)
                abort();
        }
        if (g_cur < 0) {
            fprintf(stderr, "vsim: main context would block on mutex %p held by %d\n", (void*)m, mutex_owner(m));
            abort();
        }
        Fiber& F = *g_f[g_cur];
        F.info.st = BLK_MUTEX;
        F.info.op = OP_LOCK;
        F.info.obj = m;
        yield_to_main();
    }
}

static void
release(pthread_mutex_t* m)
{
    if (owner_of(m) != me())
        set_err(owner_of(m) == 0 ? "unlock of an unlocked mutex" : "unlock of a mutex by a non-owner", m);
    owner_of(m) = 0;
    wake_mutex_waiters(m);
}

} // namespace vsim

using namespace vsim;

extern "C"
{
    int vp_mutex_init(pthread_mutex_t* m, const pthread_mutexattr_t*)
    {
        memset(m, 0, sizeof *m);
        return 0;
    }
    int vp_mutex_destroy(pthread_mutex_t*) { return 0; }
    int vp_mutex_lock(pthread_mutex_t* m)
    {
        sched_point(OP_LOCK, m);
        return acquire(m);
    }
    int vp_mutex_trylock(pthread_mutex_t* m)
    {
        sched_point(OP_TRYLOCK, m);
        if (owner_of(m) == 0) {
            owner_of(m) = me();
            return 0;
        }
        return EBUSY;
    }
    // As glibc: a free mutex is taken without looking at the deadline; otherwise an invalid timespec is
    // EINVAL (the caller does NOT hold the mutex then) and a passed deadline ETIMEDOUT.
    int vp_mutex_timedlock(pthread_mutex_t* m, const struct timespec* ts)
    {
        sched_point(OP_LOCK, m);
        if (owner_of(m) == 0 || g_cur < 0)
            return acquire(m);
        if (!ts || ts->tv_nsec < 0 || ts->tv_nsec >= 1000000000L)
            return EINVAL;
        uint64_t deadline = (uint64_t)ts->tv_sec * 1000000000ull + (uint64_t)ts->tv_nsec;
        Fiber& F = *g_f[g_cur];
        for (;;) {
            if (owner_of(m) == 0) {
                owner_of(m) = me();
                F.timed = F.timed_out = false;
                return 0;
            }
            if (g_now >= deadline) {
                F.timed = F.timed_out = false;
                return ETIMEDOUT;
            }
            F.timed = true;
            F.timed_out = false;
            F.info.wake_ns = deadline;
            F.info.st = BLK_MUTEX;
            F.info.op = OP_LOCK;
            F.info.obj = m;
            yield_to_main();
        }
    }
    int vp_mutex_unlock(pthread_mutex_t* m)
    {
        sched_point(OP_UNLOCK, m);
        release(m);
        return 0;
    }
    int vp_cond_init(pthread_cond_t* c, const pthread_condattr_t*)
    {
        memset(c, 0, sizeof *c);
        return 0;
    }
    int vp_cond_destroy(pthread_cond_t*) { return 0; }

    static int cond_wait_impl(pthread_cond_t* c, pthread_mutex_t* m, bool timed, uint64_t deadline)
    {
        sched_point(OP_WAIT, c);
        if (g_cur < 0) {
            fprintf(stderr, "vsim: main context would block in cond_wait %p\n", (void*)c);
            abort();
        }
        if (owner_of(m) != me())
            set_err("cond_wait without holding the mutex", m);
        release(m);
        Fiber& F = *g_f[g_cur];
        F.info.st = BLK_COND;
        F.info.op = OP_WAIT;
        F.info.obj = c;
        F.timed = timed;
        F.timed_out = false;
        F.info.wake_ns = deadline;
        yield_to_main();
        F.timed = false;
        bool to = F.timed_out;
        F.timed_out = false;
        F.info.op = OP_LOCK;
        F.info.obj = m;
        acquire(m);
        return to ? ETIMEDOUT : 0;
    }
    int vp_cond_wait(pthread_cond_t* c, pthread_mutex_t* m) { return cond_wait_impl(c, m, false, 0); }
    int vp_cond_timedwait(pthread_cond_t* c, pthread_mutex_t* m, const struct timespec* abstime)
    {
        // abstime is interpreted on the virtual clock
        uint64_t d = (uint64_t)abstime->tv_sec * 1000000000ull + (uint64_t)abstime->tv_nsec;
        return cond_wait_impl(c, m, true, d);
    }
    int vp_cond_broadcast(pthread_cond_t* c)
    {
        sched_point(OP_BROADCAST, c);
        for (int i = 0; i < g_n; ++i)
            if (g_f[i]->info.st == BLK_COND && g_f[i]->info.obj == c)
                g_f[i]->info.st = RUNNABLE;
        return 0;
    }
    int vp_cond_signal(pthread_cond_t* c)
    {
        sched_point(OP_SIGNAL, c);
        int w[MAXF], n = 0;
        for (int i = 0; i < g_n; ++i)
            if (g_f[i]->info.st == BLK_COND && g_f[i]->info.obj == c)
                w[n++] = i;
        if (n) {
            int k = choose_waiter ? choose_waiter(n) % n : 0;
            g_f[w[k]]->info.st = RUNNABLE;
        }
        return 0;
    }
    int vp_create(pthread_t* t, const pthread_attr_t*, void* (*fn)(void*), void* arg)
    {
        sched_point(OP_CREATE, nullptr);
        int f = spawn_impl(nullptr, fn, arg, "thread");
        if (f < 0)
            return EAGAIN;
        *t = (pthread_t)(f + 1);
        return 0;
    }
    int vp_join(pthread_t t, void** ret)
    {
        int target = (int)t - 1;
        sched_point(OP_JOIN, nullptr);
        if (target < 0 || target >= g_n) {
            set_err("join of an invalid thread handle", nullptr);
            return ESRCH;
        }
        if (target == g_cur) {
            set_err("thread joins itself", nullptr);
            return EDEADLK;
        }
        while (g_f[target]->info.st != DONE) {
            if (g_cur < 0) {
                fprintf(stderr, "vsim: main context would block in join\n");
                abort();
            }
            Fiber& F = *g_f[g_cur];
            F.info.st = BLK_JOIN;
            F.info.op = OP_JOIN;
            F.join_target = target;
            yield_to_main();
        }
        if (ret)
            *ret = nullptr;
        return 0;
    }
    int vp_detach(pthread_t) { return 0; }
    pthread_t vp_self(void) { return (pthread_t)(g_cur + 1); }

    int vp_clock_gettime(clockid_t, struct timespec* ts)
    {
        // A loop that only reads the clock (polling) must not starve the other fibers: every 4th
        // reading without any other scheduling point in between is one.
        if (g_cur >= 0 && ++g_f[g_cur]->clock_reads >= 4)
            sched_point(OP_CLOCK, nullptr);
        g_now += 1000; // clocks strictly increase: +1 us per reading
        ts->tv_sec = (time_t)(g_now / 1000000000ull);
        ts->tv_nsec = (long)(g_now % 1000000000ull);
        if (g_cur >= 0)
            wake_due();
        return 0;
    }
    static void sleep_ns(uint64_t dt)
    {
        sched_point(OP_SLEEP, nullptr);
        if (g_cur < 0) {
            g_now += dt;
            wake_due();
            return;
        }
        Fiber& F = *g_f[g_cur];
        F.info.st = SLEEPING;
        F.info.op = OP_SLEEP;
        F.info.wake_ns = g_now + dt;
        yield_to_main();
    }
    int vp_nanosleep(const struct timespec* req, struct timespec* rem)
    {
        uint64_t dt = (uint64_t)req->tv_sec * 1000000000ull + (uint64_t)req->tv_nsec;
        sleep_ns(dt);
        if (rem)
            rem->tv_sec = rem->tv_nsec = 0;
        return 0;
    }
    int vp_usleep(unsigned us)
    {
        sleep_ns((uint64_t)us * 1000ull);
        return 0;
    }
    int vp_sched_yield(void)
    {
        sched_point(OP_YIELD, nullptr);
        return 0;
    }
}
