// sched.hpp — TapeScheduler: turns schedule tokens into the sequence of fibers to step.
// Two modes (DESIGN.md 2.4): walk (one choice byte per scheduling point, 0 = keep running the
// current fiber) and PCT (priorities + a few priority change points + fairness guard).  After
// the schedule bytes are exhausted the scheduler is round-robin and fair.
#pragma once
#include "vsim.h"
#include <cstdint>
#include <vector>

namespace vsim {

struct TapeSched
{
    enum Mode
    {
        WALK,
        PCT
    } mode = WALK;
    std::vector<uint8_t> bytes; // walk: choices; pct: priority seeds
    size_t pos = 0;
    std::vector<uint64_t> change_points; // pct: global step indices at which the running fiber is demoted
    std::vector<int64_t> prio;           // per fiber id (lazy)
    uint64_t steps = 0;
    int last = -1;
    uint64_t streak = 0;
    int64_t low_water = -1;
    uint64_t fairness = 2000;
    uint64_t preemptions = 0;
    // fine profile: with probability edge_prob/256 per step the stepped fiber is preempted after
    // 1..edge_span basic-block edges (a pure function of edge_seed and the step index)
    uint64_t edge_seed = 0;
    unsigned edge_prob = 0, edge_span = 64;
    // schedule token with bit 1 of `a` set switches the fine profile on (first such token wins)
    void arm_fine(uint8_t a, uint16_t b, uint16_t c, uint16_t d)
    {
        if (edge_prob || !(a & 2))
            return;
        static const unsigned prob[4] = { 16, 48, 128, 255 }, span[8] = { 2, 4, 8, 16, 32, 64, 256, 2048 };
        edge_prob = prob[(a >> 2) & 3];
        edge_span = span[(a >> 4) & 7];
        edge_seed = (((uint64_t)b << 32) | ((uint64_t)c << 16) | d) * 0x9e3779b97f4a7c15ull + 0x632be59bd9b4e019ull;
    }
    uint64_t edge_budget_for_step()
    {
        if (!edge_prob)
            return 0;
        uint64_t h = (edge_seed ^ (steps * 0x9e3779b97f4a7c15ull));
        h ^= h >> 31;
        h *= 0xbf58476d1ce4e5b9ull;
        h ^= h >> 29;
        if ((h & 255) >= edge_prob)
            return 0;
        return 1 + (h >> 8) % edge_span;
    }

    int64_t prio_of(int f)
    {
        while ((int)prio.size() <= f) {
            int id = (int)prio.size();
            uint8_t b = bytes.empty() ? 0 : bytes[id % bytes.size()];
            // distinct priorities: byte picks the band, id breaks ties deterministically
            prio.push_back((int64_t)b * 1024 + (1000 - id));
        }
        return prio[f];
    }

    int pick(const std::vector<int>& runnable)
    {
        int n = (int)runnable.size();
        int chosen = -1;
        bool last_runnable = false;
        for (int f : runnable)
            last_runnable |= (f == last);
        if (mode == WALK) {
            if (pos < bytes.size()) {
                uint8_t b = bytes[pos++];
                if (b == 0 && last_runnable)
                    chosen = last;
                else
                    chosen = runnable[(b ? b - 1 : 0) % n];
            } else {
                // fair tail: next runnable after `last`
                chosen = runnable[0];
                for (int f : runnable)
                    if (f > last) {
                        chosen = f;
                        break;
                    }
            }
        } else {
            for (uint64_t cp : change_points)
                if (cp == steps && last >= 0) {
                    prio_of(last);
                    prio[last] = low_water--;
                }
            if (last_runnable && streak >= fairness && n > 1) {
                prio_of(last);
                prio[last] = low_water--; // fairness guard: busy loops must not starve the rest
            }
            int64_t best = INT64_MIN;
            for (int f : runnable)
                if (prio_of(f) > best) {
                    best = prio_of(f);
                    chosen = f;
                }
        }
        if (chosen != last) {
            if (last_runnable)
                preemptions++;
            streak = 0;
        }
        streak++;
        last = chosen;
        steps++;
        return chosen;
    }
};

enum RunResult
{
    RUN_DONE,      // predicate satisfied
    RUN_QUIET,     // nothing runnable, nobody sleeping, nobody blocked
    RUN_DEADLOCK,  // nothing runnable, nobody sleeping, somebody blocked
    RUN_STEPLIMIT
};

// Runs fibers until done() holds.  `blocked_out` receives one blocked fiber on deadlock.
template<typename Done>
RunResult
run(TapeSched& s, uint64_t max_steps, Done done, int* blocked_out = nullptr)
{
    std::vector<int> runnable;
    uint64_t n = 0;
    for (;;) {
        if (done())
            return RUN_DONE;
        runnable.clear();
        int nf = nfibers();
        for (int f = 0; f < nf; ++f)
            if (info(f).st == RUNNABLE)
                runnable.push_back(f);
        if (runnable.empty()) {
            if (advance_time())
                continue;
            for (int f = 0; f < nf; ++f) {
                State st = info(f).st;
                if (st == BLK_MUTEX || st == BLK_COND || st == BLK_JOIN) {
                    if (blocked_out)
                        *blocked_out = f;
                    return RUN_DEADLOCK;
                }
            }
            return RUN_QUIET;
        }
        int f = s.pick(runnable);
        set_edge_budget(s.edge_budget_for_step());
        step(f);
        set_edge_budget(0);
        if (++n > max_steps)
            return RUN_STEPLIMIT;
    }
}

} // namespace vsim
