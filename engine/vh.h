// vh.h — the interface every harness implements and every front-end (rapidcheck driver,
// libFuzzer driver, replay driver, enumerator) consumes.  See DESIGN.md 2.2 / 2.3.
#ifndef VH_H
#define VH_H
#include <stddef.h>
#include <stdint.h>
#include <stdio.h>

#ifdef __cplusplus
extern "C"
{
#endif

    // One tape token: 8 bytes, little endian on disk.
    typedef struct VhTok
    {
        uint8_t kind;
        uint8_t a;
        uint16_t b, c, d;
    } VhTok;

    typedef struct VhKindSpec
    {
        const char* name;
        uint32_t weight;                      // relative generation weight (>0)
        uint16_t a_max, b_max, c_max, d_max;  // inclusive maxima used by generators
    } VhKindSpec;

#define VH_MAX_PROPS 12
#define VH_MAX_CLASSES 64

    typedef struct VhSpec
    {
        const char* harness;
        const VhKindSpec* kinds;
        int nkinds;
        int max_len;                          // tokens beyond this are ignored
        const char* props[VH_MAX_PROPS];      // property ids decided by this harness (NULL-term.)
        const char* classes[VH_MAX_CLASSES];  // names of class flags (NULL-terminated)
        const char* rules[VH_MAX_PROPS];      // non-trivial rule text per property
    } VhSpec;

    typedef struct VhReport
    {
        // in
        FILE* trace;         // when non-NULL the harness renders every decoded operation here
        // out
        int verdict;         // 0 = held on this case, 1 = a fatal oracle failed
        char prop[8];        // property of the failing oracle
        char check[64];      // which assertion
        char sig[200];       // check id + canonical discriminator (known-finding matching)
        char msg[600];       // human readable detail
        uint32_t nontrivial; // bit i: case is non-trivial for spec->props[i]
        uint64_t classes;    // bit j: case exhibited spec->classes[j]
        uint32_t other_fail; // bit i: an oracle of props[i] (not the focus) failed; case truncated
        uint32_t excluded;   // bit i: a known finding of props[i] was hit and tolerated
        uint64_t hash;       // hash of the canonical (decoded) case
        uint32_t steps;      // decoded operations executed
    } VhReport;

    const VhSpec* vh_spec(void);
    int vh_run(const VhTok* tape, size_t n, VhReport* rep);

    // Front-end -> harness options (set once before the first vh_run).
    // focus: property id whose oracle failures are fatal; NULL/"" = every property of the harness.
    extern const char* vh_focus;
    // known: NUL-separated, double-NUL terminated list of tolerated signatures (may be NULL).
    extern const char* const* vh_known;
    extern int vh_nknown;
    // scratch directory private to this process (ends without slash)
    extern const char* vh_scratch;

#ifdef __cplusplus
}
#endif
#endif
