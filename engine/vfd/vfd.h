// vfd — descriptor ledger and OS-level fault injection under platform.c's file functions
// (platform.c is compiled with -Dopen=vp_open -Dclose=vp_close -Dpwrite=vp_pwrite
// -Dflock=vp_flock -Dunlink=vp_unlink).  See DESIGN.md 2.5.
#pragma once
#include <stddef.h>
#include <stdint.h>
#ifdef __cplusplus
#include <string>
#include <vector>
namespace vfd {

enum Call
{
    C_OPEN = 0,
    C_FLOCK,
    C_PWRITE,
    C_NCALLS
};

struct Fault
{
    Call call;
    long at;          // fires on the at-th call of that kind counted from arming (0 = next)
    int err;          // errno
    bool persistent;  // every later call of that kind fails too
    bool armed = true;
    long fired = 0;
};

struct Stats
{
    long calls[C_NCALLS] = { 0 };      // since reset()
    long op_calls[C_NCALLS] = { 0 };   // since begin_op()
    long closes = 0;
    long faults_fired = 0;
    long op_faults_fired[C_NCALLS] = { 0 };
    long op_pwrite_errors = 0;   // pwrite returned -1 during this op
    long op_zero_streak_max = 0; // longest run of zero-length pwrite returns during this op
    long short_writes = 0;
    long zero_writes = 0;
    bool runaway = false;        // call bound exceeded inside one op (recursion / hang)
};

void reset();                       // start of case: forget ledger, faults, patterns
void begin_op();                    // start of one device call (per-op counters)
void arm(const Fault& f);
void clear_faults();
// short-write pattern: pwrite k returns at most max_chunk bytes (0 = unlimited); every
// zero_every-th pwrite returns 0 bytes (0 = never), at most zero_run times in a row
void set_short(size_t max_chunk, int zero_every, int zero_run);
// sparse mode: a pwrite of more than 1 MiB really writes only its first and last 4 KiB (the file
// stays sparse) but reports the full count: lets a case produce multi-GiB files in milliseconds
void set_sparse(bool on);
const Stats& stats();
// misuse recorded by the ledger (first one): NULL if none
const char* violation();
const char* violation_kind();
void clear_violation();             // after a harness has reported it (softly) and wants to go on
int open_owned_count();             // descriptors opened by the code under test and still open
std::vector<int> open_owned();
void close_leftovers();             // harness cleanup
long op_call_bound();
void set_op_call_bound(long n);
}
#endif
