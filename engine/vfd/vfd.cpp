// vfd.cpp — see vfd.h
#include "vfd.h"

#include <errno.h>
#include <fcntl.h>
#include <map>
#include <stdarg.h>
#include <stdio.h>
#include <string.h>
#include <sys/file.h>
#include <unistd.h>

namespace vfd {

struct FdInfo
{
    bool open;
    int closes;
    std::string path;
};
static std::map<int, FdInfo> g_fds; // every descriptor number ever handed to the code under test
static std::vector<Fault> g_faults;
static Stats g_st;
static char g_viol[300];
static char g_viol_kind[64];
static bool g_has_viol = false;
static size_t g_max_chunk = 0;
static int g_zero_every = 0, g_zero_run = 1;
static long g_zero_streak = 0;
static long g_bound = 5000;
static bool g_sparse = false;

static void
viol(const char* kind, const char* fmt, ...)
{
    if (g_has_viol)
        return;
    g_has_viol = true;
    snprintf(g_viol_kind, sizeof g_viol_kind, "%s", kind);
    va_list ap;
    va_start(ap, fmt);
    vsnprintf(g_viol, sizeof g_viol, fmt, ap);
    va_end(ap);
}

void
reset()
{
    close_leftovers();
    g_fds.clear();
    g_faults.clear();
    g_st = Stats();
    g_has_viol = false;
    g_max_chunk = 0;
    g_zero_every = 0;
    g_zero_run = 1;
    g_zero_streak = 0;
    g_bound = 5000;
    g_sparse = false;
}
void
begin_op()
{
    for (int i = 0; i < C_NCALLS; ++i) {
        g_st.op_calls[i] = 0;
        g_st.op_faults_fired[i] = 0;
    }
    g_st.op_pwrite_errors = 0;
    g_st.op_zero_streak_max = 0;
    g_zero_streak = 0;
}
void
arm(const Fault& f)
{
    Fault g = f;
    g.at += g_st.calls[f.call];
    g.armed = true;
    g.fired = 0;
    g_faults.push_back(g);
}
void
clear_faults()
{
    g_faults.clear();
}
void
set_sparse(bool on)
{
    g_sparse = on;
}
void
set_short(size_t max_chunk, int zero_every, int zero_run)
{
    g_max_chunk = max_chunk;
    g_zero_every = zero_every;
    g_zero_run = zero_run < 1 ? 1 : zero_run;
}
const Stats&
stats()
{
    return g_st;
}
const char*
violation()
{
    return g_has_viol ? g_viol : nullptr;
}
const char*
violation_kind()
{
    return g_viol_kind;
}
void
clear_violation()
{
    g_has_viol = false;
}
int
open_owned_count()
{
    int n = 0;
    for (auto& kv : g_fds)
        n += kv.second.open;
    return n;
}
std::vector<int>
open_owned()
{
    std::vector<int> v;
    for (auto& kv : g_fds)
        if (kv.second.open)
            v.push_back(kv.first);
    return v;
}
void
close_leftovers()
{
    for (auto& kv : g_fds)
        if (kv.second.open) {
            ::close(kv.first);
            kv.second.open = false;
        }
}
long
op_call_bound()
{
    return g_bound;
}
void
set_op_call_bound(long n)
{
    g_bound = n;
}

// returns errno to inject for this call, or 0
static int
check_fault(Call c)
{
    long idx = g_st.calls[c]++;
    g_st.op_calls[c]++;
    if (g_st.op_calls[c] > g_bound) {
        // Unbounded recursion or a write loop inside one device call: record it and stop
        // injecting so that the code under test can unwind.
        g_st.runaway = true;
        return 0;
    }
    for (auto& f : g_faults) {
        if (!f.armed || f.call != c)
            continue;
        if (idx == f.at || (f.persistent && idx > f.at)) {
            f.fired++;
            if (!f.persistent)
                f.armed = false;
            g_st.faults_fired++;
            g_st.op_faults_fired[c]++;
            return f.err ? f.err : EIO;
        }
    }
    return 0;
}

} // namespace vfd

using namespace vfd;

extern "C"
{
    int vp_open(const char* path, int flags, ...)
    {
        mode_t mode = 0;
        if (flags & O_CREAT) {
            va_list ap;
            va_start(ap, flags);
            mode = (mode_t)va_arg(ap, int);
            va_end(ap);
        }
        int e = check_fault(C_OPEN);
        if (e) {
            errno = e;
            return -1;
        }
        int fd = ::open(path, flags, mode);
        if (fd >= 0) {
            FdInfo& fi = g_fds[fd];
            fi.open = true;
            fi.closes = 0;
            fi.path = path ? path : "";
        }
        return fd;
    }

    int vp_close(int fd)
    {
        g_st.closes++;
        auto it = g_fds.find(fd);
        if (it == g_fds.end()) {
            viol("close-foreign", "close(%d): the device never opened this descriptor", fd);
            errno = EBADF;
            return -1;
        }
        if (!it->second.open) {
            it->second.closes++;
            viol("close-stale", "close(%d): descriptor was already closed by the device (%d closes now; it last referred to %s)", fd,
                 it->second.closes, it->second.path.c_str());
            errno = EBADF;
            return -1;
        }
        it->second.open = false;
        it->second.closes++;
        return ::close(fd);
    }

    ssize_t vp_pwrite(int fd, const void* buf, size_t n, off_t off)
    {
        auto it = g_fds.find(fd);
        bool owned = it != g_fds.end() && it->second.open;
        int e = check_fault(C_PWRITE);
        if (!owned) {
            viol(it == g_fds.end() ? "write-foreign" : "write-stale", "pwrite(%d, %zu bytes): %s", fd, n,
                 it == g_fds.end() ? "the device never opened this descriptor" : "descriptor was already closed by the device");
            // what the OS would do: if the number names some other open file of the process the write goes
            // there (and succeeds); only a number that names nothing fails with EBADF
            if (fd >= 3 && ::fcntl(fd, F_GETFD) != -1)
                return ::pwrite(fd, buf, n, off);
            g_st.op_pwrite_errors++;
            errno = EBADF;
            return -1;
        }
        if (e) {
            g_st.op_pwrite_errors++;
            errno = e;
            return -1;
        }
        if (g_zero_every > 0 && !g_st.runaway) {
            long k = g_st.calls[C_PWRITE];
            if (k % g_zero_every < g_zero_run && n > 0) {
                g_st.zero_writes++;
                g_zero_streak++;
                if (g_zero_streak > g_st.op_zero_streak_max)
                    g_st.op_zero_streak_max = g_zero_streak;
                return 0;
            }
        }
        g_zero_streak = 0;
        if (g_sparse && n > (1u << 20)) {
            if (::pwrite(fd, buf, 4096, off) != 4096)
                return -1;
            if (::pwrite(fd, (const char*)buf + n - 4096, 4096, off + (off_t)(n - 4096)) != 4096)
                return -1;
            return (ssize_t)n;
        }
        size_t m = n;
        if (g_max_chunk && n > g_max_chunk) {
            m = g_max_chunk;
            g_st.short_writes++;
        }
        return ::pwrite(fd, buf, m, off);
    }

    int vp_flock(int fd, int op)
    {
        auto it = g_fds.find(fd);
        if (it == g_fds.end() || !it->second.open) {
            viol("flock-foreign", "flock(%d): not a descriptor the device holds", fd);
            if (fd >= 3 && ::fcntl(fd, F_GETFD) != -1)
                return ::flock(fd, op); // (as the OS would: some other file of the process gets locked)
            errno = EBADF;
            return -1;
        }
        int e = check_fault(C_FLOCK);
        if (e) {
            errno = e;
            return -1;
        }
        return ::flock(fd, op);
    }

    int vp_unlink(const char* path) { return ::unlink(path); }
}
