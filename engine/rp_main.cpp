// rp_main.cpp — replay front-end: runs the tapes named on the command line, bypassing every
// generation library.  Options: --trace (print the rendering), --stats (write stats.json to VH_OUT).
// Prints one line per tape: REPLAY <path> verdict=<0|1> sig=<...> msg=<...>
#include "fe_common.hpp"

int
main(int argc, char** argv)
{
    fe::init_options();
    const VhSpec* spec = vh_spec();
    fe::Stats st;
    st.spec = spec;
    st.engine = "replay";
    bool trace = false, stats = false;
    int bad = 0;
    for (int i = 1; i < argc; ++i) {
        if (!strcmp(argv[i], "--trace")) {
            trace = true;
            continue;
        }
        if (!strcmp(argv[i], "--stats")) {
            stats = true;
            continue;
        }
        if (!strcmp(argv[i], "--engine") && i + 1 < argc) {
            st.engine = argv[++i];
            continue;
        }
        std::vector<std::vector<VhTok>> seq;
        if (!fe::read_seq(argv[i], seq)) { // not a sequence file: one tape
            seq.clear();
            std::vector<VhTok> one;
            if (!fe::read_tape(argv[i], one)) {
                printf("REPLAY %s unreadable\n", argv[i]);
                bad = 2;
                continue;
            }
            seq.push_back(one);
        }
        for (size_t si = 0; si < seq.size(); ++si) {
        std::vector<VhTok>& tape = seq[si];
        if (seq.size() > 1 && trace)
            printf("---- tape %zu of %zu of the sequence (same process) ----\n", si + 1, seq.size());
        if ((int)tape.size() > spec->max_len)
            tape.resize(spec->max_len);
        for (auto& t : tape) {
            t.kind = (uint8_t)(t.kind % spec->nkinds);
            const VhKindSpec& ks = spec->kinds[t.kind];
            t.a = (uint8_t)(t.a % (ks.a_max + 1));
            t.b = (uint16_t)(t.b % ((int)ks.b_max + 1));
            t.c = (uint16_t)(t.c % ((int)ks.c_max + 1));
            t.d = (uint16_t)(t.d % ((int)ks.d_max + 1));
        }
        VhReport r;
        memset(&r, 0, sizeof r);
        if (trace)
            r.trace = stdout;
        fflush(stdout);
        vh_run(tape.data(), tape.size(), &r);
        st.account(tape.data(), tape.size(), r, false);
        printf("REPLAY %s verdict=%d ntok=%zu nontrivial=%x other_fail=%x excluded=%x sig=%s msg=%s\n", argv[i], r.verdict,
               tape.size(), r.nontrivial, r.other_fail, r.excluded, r.sig, r.msg);
        if (getenv("VH_SELFTEST"))
            printf("SELFTEST %s classes=%llx steps=%u hash=%llx\n", argv[i], (unsigned long long)r.classes, r.steps, (unsigned long long)r.hash);
        fflush(stdout);
        if (r.verdict) {
            if (!bad)
                bad = 1;
            if (!st.failed) {
                st.failed = true;
                st.fail_rep = r;
                st.fail_rep.trace = nullptr;
                st.fail_tape = tape;
            }
        }
        } // tapes of a sequence
    }
    if (stats)
        st.dump(true);
    return bad;
}
