// fz_main.cpp — libFuzzer front-end: bytes -> tape -> vh_run; the oracle is inside the target.
// On a violation the statistics and the failing tape are flushed, then the process traps so
// libFuzzer saves the input as crash-*.
#include "fe_common.hpp"

static fe::Stats* g_st;
static fe::CurTape g_cur;

static void
at_exit_dump()
{
    if (g_st)
        g_st->dump(true);
}

extern "C" int
LLVMFuzzerInitialize(int*, char***)
{
    fe::init_options();
    g_st = new fe::Stats();
    g_st->spec = vh_spec();
    g_st->engine = "libfuzzer";
    g_cur.open(fe::g_outdir + "/cur.tape");
    atexit(at_exit_dump);
    return 0;
}

extern "C" int
LLVMFuzzerTestOneInput(const uint8_t* data, size_t size)
{
    const VhSpec* spec = g_st->spec;
    std::vector<VhTok> tape = fe::bytes_to_tape(data, size);
    if ((int)tape.size() > spec->max_len)
        tape.resize(spec->max_len);
    for (auto& t : tape) { // canonical form: the same reduction the rapidcheck generator applies
        t.kind = (uint8_t)(t.kind % spec->nkinds);
        const VhKindSpec& ks = spec->kinds[t.kind];
        t.a = (uint8_t)(t.a % (ks.a_max + 1));
        t.b = (uint16_t)(t.b % ((int)ks.b_max + 1));
        t.c = (uint16_t)(t.c % ((int)ks.c_max + 1));
        t.d = (uint16_t)(t.d % ((int)ks.d_max + 1));
    }
    g_cur.put(tape.data(), tape.size());
    VhReport r;
    memset(&r, 0, sizeof r);
    vh_run(tape.data(), tape.size(), &r);
    g_st->account(tape.data(), tape.size(), r, false);
    if (r.verdict) {
        g_st->failed = true;
        g_st->fail_rep = r;
        g_st->fail_rep.trace = nullptr;
        g_st->fail_tape = tape;
        fe::write_tape(fe::g_outdir + "/fail.tape", tape.data(), tape.size());
        g_st->dump(true);
        fprintf(stderr, "VH-FAIL %s : %s\n", r.sig, r.msg);
        __builtin_trap();
    }
    g_st->dump(false);
    return 0;
}
