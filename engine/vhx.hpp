// vhx.hpp — helpers shared by harnesses (C++): failure recording with focus / known-finding
// filtering, tracing, canonical hashing.
#pragma once
#include "vh.h"
#include <cstdarg>
#include <cstdio>
#include <cstring>
#include <string>

struct VhCase
{
    VhReport* rep = nullptr;
    const VhSpec* spec = nullptr;
    bool ended = false;

    void begin(VhReport* r, const VhSpec* s)
    {
        FILE* t = r->trace;
        memset(r, 0, sizeof(*r));
        r->trace = t;
        r->hash = 0x9e3779b97f4a7c15ull;
        rep = r;
        spec = s;
        ended = false;
    }

    int prop_index(const char* prop) const
    {
        for (int i = 0; i < VH_MAX_PROPS && spec->props[i]; ++i)
            if (!strcmp(spec->props[i], prop))
                return i;
        return -1;
    }

    int class_index(const char* name) const
    {
        for (int j = 0; j < VH_MAX_CLASSES && spec->classes[j]; ++j)
            if (!strcmp(spec->classes[j], name))
                return j;
        return -1;
    }

    void cls(int j) { rep->classes |= (1ull << j); }
    bool has(int j) const { return (rep->classes >> j) & 1; }
    void nontrivial(int propidx) { rep->nontrivial |= (1u << propidx); }

    void mix(uint64_t v)
    {
        uint64_t h = rep->hash ^ (v + 0x9e3779b97f4a7c15ull + (rep->hash << 6) + (rep->hash >> 2));
        h ^= h >> 33;
        h *= 0xff51afd7ed558ccdull;
        h ^= h >> 33;
        rep->hash = h;
    }

    void trace(const char* fmt, ...) __attribute__((format(printf, 2, 3)))
    {
        if (!rep->trace)
            return;
        va_list ap;
        va_start(ap, fmt);
        vfprintf(rep->trace, fmt, ap);
        va_end(ap);
        fputc('\n', rep->trace);
    }

    static bool is_known(const char* sig)
    {
        for (int i = 0; i < vh_nknown; ++i)
            if (!strcmp(vh_known[i], sig))
                return true;
        return false;
    }

    // Like fail(), but when the failing oracle belongs to a property that is neither the focus nor
    // a known finding the case goes on (returns false): used where the harness' model stays
    // consistent, so that the focus property's own oracle can still observe the consequences.
    bool fail_soft(const char* prop, const char* check, const char* disc, const char* fmt, ...)
      __attribute__((format(printf, 5, 6)))
    {
        if (ended)
            return true;
        char msg[600];
        va_list ap;
        va_start(ap, fmt);
        vsnprintf(msg, sizeof msg, fmt, ap);
        va_end(ap);
        bool fatal = !vh_focus || !*vh_focus || !strcmp(vh_focus, prop);
        char sig[200];
        snprintf(sig, sizeof sig, "%s|%s|%s", prop, check, disc ? disc : "");
        if (fatal || is_known(sig))
            return fail(prop, check, disc, "%s", msg);
        int pi = prop_index(prop);
        if (pi >= 0)
            rep->other_fail |= (1u << pi);
        if (rep->trace)
            fprintf(rep->trace, "!! (other property, case continues) %s : %s\n", sig, msg);
        return false;
    }

    // Records an oracle failure. `disc` is the canonical discriminator of the failing history
    // class (part of the signature).  Always ends the case.  Returns true.
    bool fail(const char* prop, const char* check, const char* disc, const char* fmt, ...)
      __attribute__((format(printf, 5, 6)))
    {
        if (ended)
            return true;
        ended = true;
        char sig[200];
        snprintf(sig, sizeof sig, "%s|%s|%s", prop, check, disc ? disc : "");
        char msg[600];
        va_list ap;
        va_start(ap, fmt);
        vsnprintf(msg, sizeof msg, fmt, ap);
        va_end(ap);
        int pi = prop_index(prop);
        if (rep->trace)
            fprintf(rep->trace, "!! FAIL %s : %s\n", sig, msg);
        if (is_known(sig)) {
            if (pi >= 0)
                rep->excluded |= (1u << pi);
            return true;
        }
        bool fatal = !vh_focus || !*vh_focus || !strcmp(vh_focus, prop);
        if (fatal) {
            rep->verdict = 1;
            snprintf(rep->prop, sizeof rep->prop, "%s", prop);
            snprintf(rep->check, sizeof rep->check, "%s", check);
            snprintf(rep->sig, sizeof rep->sig, "%s", sig);
            snprintf(rep->msg, sizeof rep->msg, "%s", msg);
        } else if (pi >= 0) {
            rep->other_fail |= (1u << pi);
        }
        return true;
    }
};

// Deterministic 64-bit mixer used for content patterns (PRF).
static inline uint64_t
vh_mix64(uint64_t x)
{
    x += 0x9e3779b97f4a7c15ull;
    x = (x ^ (x >> 30)) * 0xbf58476d1ce4e5b9ull;
    x = (x ^ (x >> 27)) * 0x94d049bb133111ebull;
    return x ^ (x >> 31);
}
