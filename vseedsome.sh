#!/bin/bash
# vseedsome.sh <id> [<id> ...] — like vseedall.sh for the named seeded changes only; replaces their lines in seeded/RESULTS.txt
OUT=/verif/seeded/RESULTS.txt
for id in "$@"; do
  d=/verif/seeded/$id; prop=${id%%-*}
  r=$(TAILN=12 /verif/vseedrun_wt.sh $d/patch.diff $prop 2>&1)
  if echo "$r" | grep -qE "VIOLATION|failing class"; then v=DETECTED; else v=MISSED; fi
  line="$id $v :: $(echo "$r" | grep -m1 'failing class' | sed 's/^ *//')"
  grep -v "^$id " $OUT > $OUT.tmp; echo "$line" >> $OUT.tmp; (head -1 $OUT.tmp; tail -n +2 $OUT.tmp | sort) > $OUT; rm -f $OUT.tmp
  echo "$line"
done
