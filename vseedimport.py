#!/usr/bin/env python3
"""vseedimport.py <prop> <variant> <caught_by> <needs...>  — copy a confirmed seeded change from
/tmp/seed-out into /verif/seeded/<prop>-<variant>/ with meta.json."""
import json, os, re, shutil, sys
prop, var, caught = sys.argv[1], sys.argv[2], sys.argv[3]
needs = " ".join(sys.argv[4:])
src = "%s/%s/%s" % (os.environ.get("SEEDSRC", "/tmp/seed-out"), prop, var)
dst = "/verif/seeded/%s-%s" % (prop, os.environ.get("SEEDNAME", var))
os.makedirs(dst, exist_ok=True)
for f in os.listdir(src):
    if f in ("patch.diff", "notes.md", "build_and_run.sh") or f.startswith("demo") or f.startswith("patch-"):
        shutil.copy(os.path.join(src, f), dst)
conf = open(os.path.join(src, "confirm.txt")).read() if os.path.exists(os.path.join(src, "confirm.txt")) else ""
def g(k):
    m = re.search(k + r"=(\d+)", conf)
    return int(m.group(1)) if m else None
ct = ""
p = os.path.join(src, "confirm-ctest.txt")
if os.path.exists(p):
    t = open(p).read()
    m = re.search(r"(\d+)% tests passed, (\d+) tests failed out of (\d+)", t)
    failed = re.findall(r"^\s+\d+ - (\S+) \(", t, re.M)
    ct = {"summary": m.group(0) if m else "", "failed": failed}
meta = {
    "property": prop,
    "variant": os.environ.get("SEEDNAME", var),
    "origin": "fresh sub-agent given only the property text and a scratch worktree of /repo",
    "round": 5 if os.environ.get("SEEDSRC", "").endswith("seed5") else 4 if os.environ.get("SEEDSRC", "").endswith("seed4") else 3 if os.environ.get("SEEDSRC", "").endswith("seed3") else 2 if os.environ.get("SEEDSRC", "").endswith("seed2") else 1,
    "needs_to_manifest": needs,
    "confirmed_by_me": {
        "worktree": "scratch worktree of /repo HEAD under /tmp/cf (removed afterwards)",
        "ran": ["bash build_and_run.sh <clean tree>", "git apply patch.diff", "bash build_and_run.sh <changed tree>",
                "cmake -G Ninja ... && cmake --build", "ctest -j2..4 --timeout 900; tests that failed (memory pressure / timing on the shared machine) run again alone with --rerun-failed -j1"],
        "demo_exit_clean_tree": g("DEMO_CLEAN_EXIT"), "demo_exit_changed_tree": g("DEMO_CHANGED_EXIT"),
        "build_exit": g("BUILD_EXIT"), "ctest": ct, "ctest_failed_tests_rerun_alone_exit": g("RERUN_FAILED_ALONE_EXIT"), "ctest_final_exit": g("CTEST_EXIT"),
        "note": "tests outside BASELINE.json stable_pass (flaky list: sleep-while-inspecting, default-devices, one-video-stream, client-queue-is-flushed-after-abort) fail under load with and without the change",
    },
    "detected_by": caught,
}
json.dump(meta, open(os.path.join(dst, "meta.json"), "w"), indent=1)
print("imported", dst)
