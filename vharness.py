"""vharness.py — which sources make up each harness, which properties it decides, budgets."""
from vbuild import Target

CORE = "acquire-core-libs/src/"
RT = "acquire-video-runtime/src/"
DRV = "acquire-driver-common/src/"

ENGINE_MAIN = {"rc": "engine/rc_main.cpp", "fz": "engine/fz_main.cpp", "rp": "engine/rp_main.cpp", "en": "engine/enum_main.cpp"}


def _link_flags(engine):
    if engine == "rc":
        return ["-lrapidcheck", "-ldl", "-lpthread"]
    if engine == "fz":
        return ["-fsanitize=fuzzer", "-ldl", "-lpthread"]
    return ["-ldl", "-lpthread"]


def _props_sources(t):
    t.verif("harness/props/props.cpp")
    t.repo(CORE + "acquire-device-properties/device/props/storage.c",
           ["-Dmalloc=vh_malloc", "-Drealloc=vh_realloc", "-Dfree=vh_free", "-Dcalloc=vh_calloc"])
    t.repo(CORE + "acquire-device-properties/device/props/components.c")
    t.repo(CORE + "acquire-core-logger/logger.c")


PLATFORM_RENAMES = ["-D%s=%s" % kv for kv in [
    ("pthread_mutex_init", "vp_mutex_init"), ("pthread_mutex_destroy", "vp_mutex_destroy"),
    ("pthread_mutex_lock", "vp_mutex_lock"), ("pthread_mutex_trylock", "vp_mutex_trylock"),
    ("pthread_mutex_timedlock", "vp_mutex_timedlock"), ("pthread_mutex_unlock", "vp_mutex_unlock"),
    ("pthread_cond_init", "vp_cond_init"), ("pthread_cond_destroy", "vp_cond_destroy"),
    ("pthread_cond_wait", "vp_cond_wait"), ("pthread_cond_timedwait", "vp_cond_timedwait"),
    ("pthread_cond_signal", "vp_cond_signal"), ("pthread_cond_broadcast", "vp_cond_broadcast"),
    ("pthread_create", "vp_create"), ("pthread_join", "vp_join"), ("pthread_detach", "vp_detach"),
    ("pthread_self", "vp_self"), ("clock_gettime", "vp_clock_gettime"), ("nanosleep", "vp_nanosleep"),
    ("usleep", "vp_usleep"), ("sched_yield", "vp_sched_yield")]]
EDGE_HOOK = ["-fsanitize-coverage=trace-pc-guard"]
FILE_RENAMES = ["-Dopen=vp_open", "-Dclose=vp_close", "-Dpwrite=vp_pwrite", "-Dflock=vp_flock", "-Dunlink=vp_unlink"]


def _chan_sources(t):
    t.verif("harness/chan/chan.cpp")
    t.verif("engine/vsim/vsim.cpp")
    t.repo(RT + "runtime/channel.c", ["-Dmemory_alloc=vh_memory_alloc", "-Dmemory_free=vh_memory_free"])
    t.repo(CORE + "acquire-core-platform/linux/platform.c", PLATFORM_RENAMES)
    t.repo(CORE + "acquire-core-logger/logger.c")


def _chanbig_sources(t):
    t.verif("harness/chanbig/chanbig.cpp")
    t.verif("engine/vsim/vsim.cpp")
    t.repo(RT + "runtime/channel.c", ["-Dmemory_alloc=vh_memory_alloc", "-Dmemory_free=vh_memory_free", "-Dmemset=vh_memset"])
    t.repo(CORE + "acquire-core-platform/linux/platform.c", PLATFORM_RENAMES)
    t.repo(CORE + "acquire-core-logger/logger.c")


def _hal_sources(t):
    t.verif("harness/hal/hal.cpp")
    t.repo(CORE + "acquire-device-hal/device/hal/camera.c")
    t.repo(CORE + "acquire-device-hal/device/hal/storage.c")
    t.repo(CORE + "acquire-device-hal/device/hal/driver.c")
    # the mock driver reaches the HAL the way every real driver does: through the loader's wrapper
    t.repo(CORE + "acquire-device-hal/device/hal/loader.c")
    t.repo(CORE + "acquire-core-platform/linux/platform.c")
    t.repo(CORE + "acquire-device-properties/device/props/device.c")
    t.repo(CORE + "acquire-core-logger/logger.c")


def _hal_extra():
    import os
    from vbuild import BUILD
    out = []
    for e, exeprof in (("rc", "asan"), ("rp", "asan"), ("fz", "fuzz")):
        t = Target("hal_tramp_" + e, "asan")  # never coverage-instrumented (see _devsel_extra)
        t.verif("engine/vmock_trampoline.c")
        t.shared = True
        t.out = os.path.join(BUILD, exeprof, "hal_" + e, "libvhalmock.so")
        out.append(t)
    return out


def _stor_sources(t):
    t.verif("harness/stor/stor.cpp")
    t.verif("engine/vfd/vfd.cpp")
    wrap = ["-Dfile_write=vh_file_write", "-Dfile_create=vh_file_create"]
    for f in ["storage/raw.c", "storage/tiff.cpp", "storage/side-by-side-tiff.cpp", "storage/trash.c"]:
        t.repo(DRV + f, wrap)
    for f in ["storage/basic.storage.c", "basics.driver.c"]:
        t.repo(DRV + f)
    t.repo(CORE + "acquire-device-hal/device/hal/storage.c")
    t.repo(CORE + "acquire-device-hal/device/hal/driver.c")
    t.repo(CORE + "acquire-device-properties/device/props/storage.c")
    t.repo(CORE + "acquire-device-properties/device/props/components.c")
    t.repo(CORE + "acquire-device-properties/device/props/device.c")
    t.repo(CORE + "acquire-core-platform/linux/platform.c", FILE_RENAMES)
    t.repo(CORE + "acquire-core-logger/logger.c")


def _simcam_sources(t):
    t.verif("harness/simcam/simcam.cpp")
    t.verif("engine/vsim/vsim.cpp")
    ub = ["-fsanitize=alignment,bounds", "-fno-sanitize-recover=alignment,bounds"]
    t.repo(DRV + "simcams/simulated.camera.c", ub + EDGE_HOOK + ["-Drealloc=vh_sim_realloc"])  # fine profile (see _rt_sources); allocation failures
    t.repo(DRV + "simcams/imfill.pattern.cpp", ub)
    t.repo(DRV + "simcams/popcount.cpp")
    t.repo(DRV + "simcams/3rdParty/pcg-c-basic-0.9/pcg_basic.c")
    t.repo(DRV + "basics.driver.c")
    t.repo(CORE + "acquire-device-hal/device/hal/camera.c", EDGE_HOOK)
    t.repo(CORE + "acquire-device-hal/device/hal/driver.c")
    t.repo(CORE + "acquire-device-properties/device/props/components.c")
    t.repo(CORE + "acquire-device-properties/device/props/device.c")
    t.repo(CORE + "acquire-core-platform/linux/platform.c", PLATFORM_RENAMES)
    t.repo(CORE + "acquire-core-logger/logger.c")


def _rt_sources(t):
    t.verif("harness/rt/rt.cpp")
    t.verif("harness/rt/vmock.cpp")
    t.verif("engine/vsim/vsim.cpp")
    # fine profile: every basic-block edge of the runtime, HAL and property code can be a preemption
    # point (engine/vsim: __sanitizer_cov_trace_pc_guard); platform.c and the logger are not instrumented
    E = EDGE_HOOK
    t.repo(RT + "acquire.c", E)
    t.repo(RT + "runtime/source.c", E)
    t.repo(RT + "runtime/sink.c", ["-Dchannel_new=vh_channel_new"] + E)
    t.repo(RT + "runtime/filter.c", ["-Dchannel_new=vh_channel_new"] + E)
    for f in ["runtime/channel.c", "runtime/vfslice.c", "runtime/frame_iterator.c", "runtime/throttler.c"]:
        t.repo(RT + f, E)
    for f in ["camera.c", "storage.c", "driver.c", "loader.c", "device.manager.cpp"]:
        t.repo(CORE + "acquire-device-hal/device/hal/" + f, E)
    for f in ["storage.c", "components.c", "device.c"]:
        t.repo(CORE + "acquire-device-properties/device/props/" + f, E)
    # the shipped simulated cameras, used behind a recording proxy device of the mock driver (vreal0/1)
    t.repo(DRV + "simcams/simulated.camera.c", E)
    t.repo(DRV + "simcams/imfill.pattern.cpp")
    t.repo(DRV + "simcams/popcount.cpp")
    t.repo(DRV + "simcams/3rdParty/pcg-c-basic-0.9/pcg_basic.c")
    t.repo(CORE + "acquire-core-platform/linux/platform.c", PLATFORM_RENAMES)
    t.repo(CORE + "acquire-core-logger/logger.c")


def _rt_extra():
    out = []
    import os
    from vbuild import BUILD
    for e in ("rc", "rp"):
        t = Target("rt_tramp_" + e, "asan")
        t.verif("engine/vmock_trampoline.c")
        t.shared = True
        t.out = os.path.join(BUILD, "asan", "rt_" + e, "libacquire-driver-zarr.so")
        out.append(t)
    return out


def _devsel_sources(t):
    t.verif("harness/devsel/devsel.cpp")
    for f in ["camera.c", "storage.c", "driver.c", "loader.c", "device.manager.cpp"]:
        t.repo(CORE + "acquire-device-hal/device/hal/" + f)
    for f in ["storage.c", "components.c", "device.c"]:
        t.repo(CORE + "acquire-device-properties/device/props/" + f)
    t.repo(CORE + "acquire-core-platform/linux/platform.c")
    t.repo(CORE + "acquire-core-logger/logger.c")


def _common_driver_sources(t):
    for f in ["basics.driver.c", "simcams/simulated.camera.c", "simcams/imfill.pattern.cpp", "simcams/popcount.cpp",
              "simcams/3rdParty/pcg-c-basic-0.9/pcg_basic.c", "storage/raw.c", "storage/tiff.cpp", "storage/side-by-side-tiff.cpp",
              "storage/trash.c", "storage/basic.storage.c"]:
        t.repo(DRV + f)
    for f in ["storage.c", "components.c", "device.c"]:
        t.repo(CORE + "acquire-device-properties/device/props/" + f)
    t.repo(CORE + "acquire-core-platform/linux/platform.c")
    t.repo(CORE + "acquire-core-logger/logger.c")


def _devsel_extra():
    import os
    from vbuild import BUILD
    out = []
    for e, exeprof in (("rc", "asan"), ("rp", "asan"), ("fz", "fuzz")):
        # helper libraries are never coverage-instrumented: libFuzzer keeps pointers to the counters of
        # every module it saw, and these libraries are dlclosed again by the loader
        prof = "asan"
        hd = os.path.join(BUILD, exeprof, "devsel_" + e, "helpers")
        for slot in range(6):
            t = Target("devsel_tramp%d_%s" % (slot, e), prof)
            t.verif("engine/devsel_tramp.c", ["-DSLOT=%d" % slot])
            t.shared = True
            t.out = os.path.join(hd, "tramp%d.so" % slot)
            out.append(t)
        t = Target("devsel_noentry_" + e, prof)
        t.verif("engine/devsel_noentry.c", ["-DNOENTRY=1"])
        t.shared = True
        t.out = os.path.join(hd, "noentry.so")
        out.append(t)
        t = Target("devsel_common_" + e, prof)
        _common_driver_sources(t)
        t.shared = True
        t.out = os.path.join(hd, "common.so")
        out.append(t)
    return out


HARNESSES = {
    "devsel": {
        "props": ["C12"],
        "sources": _devsel_sources,
        "engines": ["rc", "rp", "fz"],
        "link_flags": ["-rdynamic"],
        "extra_targets": _devsel_extra,
        "quick": {"rc_cases": 1500, "rc_size": 30},
        "thorough": {"rc_cases": 20000, "rc_size": 50, "fz_secs": 120},
        "fz_max_tokens": 50,
    },
    "rt": {
        "props": ["C04", "C05", "C06", "C07", "C08", "C09", "C10"],
        "sources": _rt_sources,
        "engines": ["rc", "rp"],
        "link_flags": ["-rdynamic"],
        "extra_targets": _rt_extra,
        "level": {"C09": "fault_enumeration"},
        "extras": {"C09": ["rt_fault_enum"]},
        "quick": {"rc_cases": 1500, "rc_size": 40},
        "thorough": {"rc_cases": 40000, "rc_size": 60},
    },
    "simcam": {
        "props": ["C17", "C18"],
        "sources": _simcam_sources,
        "engines": ["rc", "rp"],
        "link_flags": ["-fsanitize=undefined"],
        "quick": {"rc_cases": 4000, "rc_size": 40},
        "thorough": {"rc_cases": 80000, "rc_size": 60},
    },
    "stor": {
        "props": ["C14", "C15", "C16"],
        "sources": _stor_sources,
        "engines": ["rc", "rp", "fz"],
        "level": {"C16": "fault_enumeration"},
        "extras": {"C16": ["stor_fault_enum"]},
        "quick": {"rc_cases": 20000, "rc_size": 30},
        "thorough": {"rc_cases": 150000, "rc_size": 50, "fz_secs": 120},
        "fz_max_tokens": 60,
    },
    "hal": {
        "props": ["C11"],
        "sources": _hal_sources,
        "engines": ["rc", "rp", "fz"],
        "link_flags": ["-rdynamic"],
        "extra_targets": _hal_extra,
        "quick": {"rc_cases": 20000, "rc_size": 50},
        "thorough": {"rc_cases": 200000, "rc_size": 80, "fz_secs": 120},
        "fz_max_tokens": 80,
    },
    "chan": {
        "props": ["C01", "C02", "C03"],
        "sources": _chan_sources,
        "engines": ["rc", "rp", "en"],
        "extras": {"C01": ["chan_exhaustive"], "C02": ["chan_exhaustive"], "C03": ["chan_exhaustive"]},
        # integration part of C02 / C03: the same promises seen from the channel's users inside the running
        # runtime (harness rt with VH_FOCUS=C02|C03): a region a consumer holds does not change; a source
        # blocked in channel_write_map is always released by consumption, stop, abort or a device fault
        # size part of C01 / C02 / C03: harness chanbig (capacity above 4 GiB)
        "also": {"C01": [{"harness": "chanbig", "quick": {"rc_cases": 1500, "rc_size": 30}, "thorough": {"rc_cases": 30000, "rc_size": 40}}],
                 "C02": [{"harness": "rt", "quick": {"rc_cases": 500, "rc_size": 40}, "thorough": {"rc_cases": 10000, "rc_size": 60}},
                         {"harness": "chanbig", "quick": {"rc_cases": 1500, "rc_size": 30}, "thorough": {"rc_cases": 30000, "rc_size": 40}}],
                 "C03": [{"harness": "rt", "quick": {"rc_cases": 500, "rc_size": 40}, "thorough": {"rc_cases": 10000, "rc_size": 60}},
                         {"harness": "chanbig", "quick": {"rc_cases": 1500, "rc_size": 30}, "thorough": {"rc_cases": 30000, "rc_size": 40}}]},
        "rules": {"C02": "a write placed when free space was < 2*n with a reader lagging or holding a mapping, or a write ending exactly at the slowest cursor / at the buffer end; "
                         "integration part (harness rt): a consumer held a region while the source kept writing",
                  "C03": "the writer was observed asleep inside write_map and was released (by an unmap, a refusal, a refused map-while-mapped); "
                         "integration part (harness rt): the source thread was seen asleep in channel_write_map and the acquisition was ended by stop, abort or a device fault"},
        "quick": {"rc_cases": 100000, "rc_size": 60},
        "thorough": {"rc_cases": 2000000, "rc_size": 120},
    },
    # size part of the channel properties: capacities above 4 GiB (sparse buffer, extent model).  Not the
    # primary harness of any property: run through "also" of C01 / C02 / C03.
    "chanbig": {
        "props": [],
        "sources": _chanbig_sources,
        "engines": ["rc", "rp"],
        "quick": {"rc_cases": 1500, "rc_size": 30},
        "thorough": {"rc_cases": 30000, "rc_size": 40},
    },
    "props": {
        "props": ["C13"],
        "sources": _props_sources,
        "engines": ["rc", "rp", "fz"],
        # cases per worker and rapidcheck max_size
        "assumptions": {"C13": [
            "value model of harness/props/props.cpp: stored string = input bytes with last byte forced to NUL; NULL/empty input -> \"\"; copy of an unset string -> \"\"",
            "objects are zeroed by the caller after destroy before reuse; init is only applied to objects that own nothing",
            "dimension names passed to set_dimension are NUL-terminated C strings (documented); other strings may be unterminated, exact-size heap blocks",
            "released blocks are zero-filled and quarantined by the interposed allocator (use after release is an oracle failure); realloc always moves",
            "AddressSanitizer (clang 14) reports out-of-bounds accesses; leaks are judged by the ledger, not LeakSanitizer",
            "an injected allocation failure (one-shot, n-th request) leaves the values of the object it hit unspecified: only structural validity, absence of leaks and releasability are judged for it until it is destroyed or fully overwritten by a copy"]},
        # integration part of C13: the copies the shipped storage devices keep of their properties (harness stor
        # with VH_FOCUS=C13: after every accepted set the device's copy is read back and compared field by field)
        "also": {"C13": [{"harness": "stor", "quick": {"rc_cases": 3000, "rc_size": 30}, "thorough": {"rc_cases": 40000, "rc_size": 50}}]},
        "quick": {"rc_cases": 40000, "rc_size": 40},
        "thorough": {"rc_cases": 600000, "rc_size": 60, "fz_secs": 120},
    },
}

PROP2HARNESS = {}
for _h, _cfg in HARNESSES.items():
    for _p in _cfg["props"]:
        PROP2HARNESS[_p] = _h


def targets_for(harness, engines=None):
    cfg = HARNESSES[harness]
    out = {}
    for e in engines or cfg["engines"]:
        prof = "fuzz" if e == "fz" else "asan"
        t = Target("%s_%s" % (harness, e), prof)
        cfg["sources"](t)
        t.verif(ENGINE_MAIN[e])
        t.link_flags = _link_flags(e) + cfg.get("link_flags", [])
        out[e] = t
    return out


def extra_targets(harness):
    """Targets besides the front-end executables (driver libraries, trampolines, ...)."""
    f = HARNESSES[harness].get("extra_targets")
    return f() if f else []
