#!/bin/bash
# vseedrun_wt.sh <patch.diff> <property> [scale] — like vseedrun.sh but in a scratch worktree (default /tmp/wt-rev,
# build in /tmp/vb-rev; VSEED_WT / VSEED_VB choose others), so /repo stays untouched and other work can go on.
P=$1; PROP=$2; S=${3:-1}
WT=${VSEED_WT:-/tmp/wt-rev}; VB=${VSEED_VB:-/tmp/vb-rev}
[ -d $WT ] || git -C /repo worktree add --detach $WT HEAD >/dev/null 2>&1
git -C $WT reset -q --hard; git -C $WT checkout -q --detach $(git -C /repo rev-parse HEAD)
git -C $WT apply "$P" || { echo "patch does not apply"; exit 3; }
VERIF_EVIDENCE=$VB/evidence VERIF_REPO=$WT VERIF_BUILD=$VB VERIF_SCALE=$S timeout 1500 python3 /verif/vcheck.py $PROP 2>&1 | grep -E "failing class|^  [a-z]|VIOLATION|property=|BUILD-FAILED" | head -${TAILN:-6}
git -C $WT reset -q --hard
