#!/bin/bash
# vseedrun_wt.sh <patch.diff> <property> [scale] — like vseedrun.sh but in the scratch worktree /tmp/wt-rev
# (VERIF_REPO/VERIF_BUILD), so /repo stays untouched and other work can go on.
P=$1; PROP=$2; S=${3:-1}
WT=/tmp/wt-rev
git -C $WT reset -q --hard; git -C $WT checkout -q --detach $(git -C /repo rev-parse HEAD)
git -C $WT apply "$P" || { echo "patch does not apply"; exit 3; }
VERIF_EVIDENCE=/tmp/vb-rev/evidence VERIF_REPO=$WT VERIF_BUILD=/tmp/vb-rev VERIF_SCALE=$S timeout 1500 python3 /verif/vcheck.py $PROP 2>&1 | grep -E "failing class|^  [a-z]|VIOLATION|property=|BUILD-FAILED" | head -${TAILN:-6}
git -C $WT reset -q --hard
