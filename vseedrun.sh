#!/bin/bash
# vseedrun.sh <patch.diff> <property> [tier]  — apply a seeded change to /repo, run the check, undo it.
set -u
P=$1; PROP=$2; TIER=${3:-quick}
git -C /repo apply "$P" || { echo "patch does not apply"; exit 3; }
VERIF_EVIDENCE=/tmp/vseed-evidence python3 /verif/vcheck.py $PROP --tier $TIER 2>&1 | tail -${TAILN:-6}
RC=${PIPESTATUS[0]}
git -C /repo checkout -- .
echo "exit=$RC"
