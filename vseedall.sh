#!/bin/bash
# vseedall.sh — run every seeded change through the quick check of its property (scratch worktree),
# writes /verif/seeded/RESULTS.txt
OUT=/verif/seeded/RESULTS.txt
echo "# quick check of the seeded property against each seeded change (vseedrun_wt.sh), $(date -u +%FT%TZ), /verif at $(git -C /verif rev-parse --short HEAD)" > $OUT
for d in /verif/seeded/C*-*; do
  id=$(basename $d); prop=${id%%-*}
  r=$(TAILN=12 /verif/vseedrun_wt.sh $d/patch.diff $prop 2>&1)
  if echo "$r" | grep -qE "VIOLATION|failing class"; then v=DETECTED; else v=MISSED; fi
  echo "$id $v :: $(echo "$r" | grep -m1 'failing class' | sed 's/^ *//')" >> $OUT
done
cat $OUT
